#!/venv/bin/python
"""Entry point of tesim (a plain script, so that no module is imported twice)."""
import os
import sys

HERE = os.path.dirname(os.path.abspath(__file__))
if HERE not in sys.path:
    sys.path.insert(0, HERE)

for _k in ("OMP_NUM_THREADS", "OPENBLAS_NUM_THREADS", "MKL_NUM_THREADS", "NUMEXPR_NUM_THREADS"):
    os.environ.setdefault(_k, "1")

if os.environ.get("PYTHONHASHSEED") is None and not os.environ.get("TESIM_NO_REEXEC"):
    # fixed hash seed for the main interpreter; the determinism sample re-runs
    # a subset under a different one.
    os.environ["PYTHONHASHSEED"] = "0"
    os.execv(sys.executable, [sys.executable] + sys.argv)

from tesim.core import main, EXIT_HARNESS  # noqa: E402

if __name__ == "__main__":
    try:
        code = main(sys.argv[1:])
    except SystemExit:
        raise
    except BaseException as e:  # never exit 0 or 1 on a harness crash
        import traceback
        traceback.print_exc()
        print("HARNESS-ERROR {!r}".format(e))
        code = EXIT_HARNESS
    sys.exit(code)
