"""Core of tesim: seeding, canonical logs and digests, the process pool, the
ddmin shrinker, replay files, known findings, evidence files and the CLI.

Everything that is random derives from random.Random(f"{seed}:{prop}:{i}")
(string seeding goes through SHA-512, so it is independent of PYTHONHASHSEED).
Logging never draws from a PRNG and never reads a clock.
"""
import os
import sys
import json
import time
import copy
import math
import random
import signal
import hashlib
import importlib
import traceback
import subprocess
import contextlib
import faulthandler
from collections import Counter
from datetime import datetime, timedelta, date
from fractions import Fraction
from concurrent.futures import ProcessPoolExecutor, as_completed
import multiprocessing

VERIF = os.path.dirname(os.path.dirname(os.path.abspath(__file__)))
REPO = os.environ.get("TESIM_REPO", "/repo")
if REPO not in sys.path[:1]:
    sys.path.insert(0, REPO)

from tesim import TESIM_VERSION  # noqa: E402

EXIT_OK, EXIT_VIOLATION, EXIT_HARNESS = 0, 1, 3
ALL_PROPS = ["C01", "C02", "C03", "C04", "C05", "C06", "C07", "C08", "C09",
             "C10", "C11", "C12", "C13", "C14", "C15", "C17", "C18"]


class HarnessError(Exception):
    """A problem of the machinery, never reported as a VIOLATION."""


class RunTimeout(HarnessError):
    pass


# --------------------------------------------------------------------------
# seeding
# --------------------------------------------------------------------------
def mkrng(seed, prop, i, salt=""):
    return random.Random("{}:{}:{}{}".format(seed, prop, i, salt))


# --------------------------------------------------------------------------
# canonical rendering and digests
# --------------------------------------------------------------------------
def canon(o):
    """Canonical, JSON-able, bit-exact rendering of a log value."""
    import numpy as np
    if o is None or isinstance(o, (bool, str)):
        return o
    if isinstance(o, (int,)) and not isinstance(o, bool):
        return int(o)
    if isinstance(o, float):
        return o.hex() if o == o else "nan"
    if isinstance(o, np.generic):
        return canon(o.item())
    if isinstance(o, np.ndarray):
        return {"nd": list(o.shape), "v": [canon(x) for x in o.ravel().tolist()]}
    if isinstance(o, datetime):
        return o.isoformat()
    if isinstance(o, date):
        return o.isoformat()
    if isinstance(o, timedelta):
        return "td:{}".format(o.total_seconds())
    if isinstance(o, Fraction):
        return "{}/{}".format(o.numerator, o.denominator)
    if isinstance(o, dict):
        return {str(canon_key(k)): canon(v) for k, v in sorted(o.items(), key=lambda kv: str(canon_key(kv[0])))}
    if isinstance(o, (list, tuple)):
        return [canon(x) for x in o]
    if isinstance(o, (set, frozenset)):
        return sorted(str(canon_key(x)) for x in o)
    return repr(o)


def canon_key(k):
    if isinstance(k, (str, int)):
        return k
    if isinstance(k, datetime):
        return k.isoformat()
    return repr(k)


def digest(log):
    h = hashlib.sha256()
    h.update(json.dumps(canon(log), sort_keys=True, separators=(",", ":")).encode())
    return h.hexdigest()


def jdump(o):
    return json.dumps(o, sort_keys=True, separators=(",", ":"), allow_nan=True)


def scen_digest(scenario):
    return hashlib.sha256(jdump(scenario).encode()).hexdigest()


def iso(t):
    return t.isoformat()


def parse_t(s):
    return datetime.fromisoformat(s)


# --------------------------------------------------------------------------
# simulation context: contract clock, wall-clock tripwire, global PRNGs
# --------------------------------------------------------------------------
TRIPWIRE_HITS = []
_TRIP_INSTALLED = []


def _install_tripwire():
    import tradingenv.broker.rebalancing as _reb
    import tradingenv.transmitter as _tr
    if _TRIP_INSTALLED:
        return
    _TRIP_INSTALLED.append(True)

    class _Transparent(type):
        # the stand-in must not change what the patched modules' own isinstance(x, datetime) tests see
        def __instancecheck__(cls, obj):
            return isinstance(obj, datetime)

        def __subclasscheck__(cls, sub):
            return issubclass(sub, datetime)

    class TripDatetime(datetime, metaclass=_Transparent):
        _tesim_trip = True

        @classmethod
        def now(cls, tz=None):
            TRIPWIRE_HITS.append("now")
            return datetime(1999, 9, 9)

        @classmethod
        def utcnow(cls):
            TRIPWIRE_HITS.append("utcnow")
            return datetime(1999, 9, 9)

    for m in (_reb, _tr):
        # only where the module binds the class under this name (another import style: no tripwire there)
        if getattr(m, "datetime", None) is datetime:
            m.datetime = TripDatetime


@contextlib.contextmanager
def sim_context(clock0=None, prng_seed=0):
    """Own every global the code under test reads: the process-wide contract
    clock, numpy's and random's global PRNGs, and the wall-clock names."""
    import numpy as np
    from tradingenv.contracts import AbstractContract
    _install_tripwire()
    del TRIPWIRE_HITS[:]
    saved_now = AbstractContract.now
    st_np = np.random.get_state()
    st_py = random.getstate()
    AbstractContract.now = clock0 if clock0 is not None else datetime.min
    np.random.seed(prng_seed % (2 ** 32))
    random.seed(prng_seed)
    try:
        yield
        if TRIPWIRE_HITS:
            raise HarnessError("wall clock read during simulation: {}".format(TRIPWIRE_HITS[:3]))
    finally:
        AbstractContract.now = saved_now
        np.random.set_state(st_np)
        random.setstate(st_py)


def assert_repo_imported():
    import tradingenv
    path = os.path.realpath(tradingenv.__file__)
    if not path.startswith(os.path.realpath(REPO) + os.sep):
        raise HarnessError("tradingenv imported from {} not {}".format(path, REPO))
    return path


# --------------------------------------------------------------------------
# property modules
# --------------------------------------------------------------------------
def load_prop(prop):
    return importlib.import_module("tesim.props." + prop.lower())


def _alarm_handler(signum, frame):
    raise RunTimeout("run exceeded its time limit")


def exc_name(e):
    """Class name under which an exception is recorded and judged: a class the library derives from
    EndOfEpisodeError or from a builtin counts as that ancestor (what `except`/`isinstance` would see)."""
    for k in type(e).__mro__:
        if not (k.__module__ or "").startswith("tradingenv") or k.__name__ == "EndOfEpisodeError":
            return k.__name__
    return type(e).__name__


def library_site(exc):
    """'file.py:function' of the innermost tradingenv frame an exception passed through, provided that
    no harness frame lies below it (i.e. the library, not the harness, failed); None otherwise."""
    import traceback
    frames = traceback.extract_tb(exc.__traceback__)
    for f in reversed(frames):
        if "/tradingenv/" in f.filename:
            return "{}:{}".format(os.path.basename(f.filename), f.name)
        if "/tesim/" in f.filename:
            return None
    return None


def execute_guarded(mod, scenario, limit=None):
    """Run mod.execute under an alarm. Returns the outcome dict."""
    limit = limit or getattr(mod, "TIMEOUT", 10)
    # the alarm is a wall-clock one: a loaded machine (other checks, audits) must not turn a slow run into a harness error
    limit *= float(os.environ.get("TESIM_TIMEOUT_FACTOR", "4"))
    old = signal.signal(signal.SIGALRM, _alarm_handler)
    signal.setitimer(signal.ITIMER_REAL, limit)
    try:
        out = mod.execute(scenario)
    finally:
        signal.setitimer(signal.ITIMER_REAL, 0)
        signal.signal(signal.SIGALRM, old)
    return out


def run_one(mod, seed, i):
    rng = mkrng(seed, mod.PROP, i)
    scenario = mod.generate(rng, i)
    out = execute_guarded(mod, scenario)
    return scenario, out


def _trace_hash(s):
    return int.from_bytes(hashlib.blake2b(s.encode(), digest_size=8).digest(), "big")


def _chunk_worker(args):
    prop, seed, indices, want_digests = args
    faulthandler.enable()
    mod = load_prop(prop)
    agg = {
        "n": 0, "probes": Counter(), "faults": Counter(), "stats": Counter(),
        "traces": set(), "nontrivial_traces": set(), "violations": [],
        "errors": [], "samples": {}, "digests": {}, "known_hits": Counter(),
    }
    for i in indices:
        try:
            scenario, out = run_one(mod, seed, i)
        except Exception as e:  # harness problem (incl. timeouts)
            agg["errors"].append((i, "{}: {}".format(exc_name(e), e), traceback.format_exc()[-1500:]))
            continue
        agg["n"] += 1
        agg["probes"].update(out.get("probes", {}))
        agg["faults"].update(out.get("faults", {}))
        agg["stats"].update(out.get("stats", {}))
        th = _trace_hash(out.get("trace", ""))
        agg["traces"].add(th)
        if out.get("nontrivial"):
            agg["nontrivial_traces"].add(th)
        if want_digests and i in want_digests:
            agg["digests"][i] = (scen_digest(scenario), out["digest"])
        for v in out.get("violations", [])[:1]:
            if len(agg["violations"]) < 40:
                agg["violations"].append((i, v, scenario, out["digest"]))
            else:
                agg["stats"]["violations_not_kept"] += 1
        nops = out.get("stats", {}).get("ops", 0)
        sm = agg["samples"]
        if "shortest" not in sm or nops < sm["shortest"][0]:
            sm["shortest"] = (nops, i, mod.describe(scenario))
        if "longest" not in sm or nops > sm["longest"][0]:
            sm["longest"] = (nops, i, mod.describe(scenario))
        if "faulty" not in sm and sum(out.get("faults", {}).values()) > 0:
            sm["faulty"] = (nops, i, mod.describe(scenario))
    return indices[0], agg


def run_batch(prop, seed, n_runs, workers, wall_cap, digest_indices=()):
    """Runs indices 0..n_runs-1 in chunks over a fork pool. Deterministic
    merge (chunk order). Returns the merged aggregate."""
    mod = load_prop(prop)
    chunk = max(1, min(getattr(mod, "CHUNK", 200), math.ceil(n_runs / (workers * 4))))
    chunks = [list(range(a, min(a + chunk, n_runs))) for a in range(0, n_runs, chunk)]
    want = set(digest_indices)
    results = {}
    t0 = time.time()
    ctx = multiprocessing.get_context("fork")
    stopped_early = False
    with ProcessPoolExecutor(max_workers=workers, mp_context=ctx) as pool:
        pending = {}
        it = iter(chunks)
        # keep at most 2*workers chunks in flight so the wall cap can stop submission
        def submit_next():
            try:
                c = next(it)
            except StopIteration:
                return False
            fut = pool.submit(_chunk_worker, (prop, seed, c, want))
            pending[fut] = c
            return True
        for _ in range(workers * 2):
            if not submit_next():
                break
        while pending:
            done = next(as_completed(list(pending)))
            c = pending.pop(done)
            first, agg = done.result(timeout=600)
            results[first] = agg
            if time.time() - t0 > wall_cap:
                stopped_early = True
            if not stopped_early:
                submit_next()
    merged = {
        "n": 0, "probes": Counter(), "faults": Counter(), "stats": Counter(),
        "traces": set(), "nontrivial_traces": set(), "violations": [],
        "errors": [], "samples": {}, "digests": {}, "planned": n_runs,
        "stopped_early": stopped_early,
    }
    for first in sorted(results):
        a = results[first]
        merged["n"] += a["n"]
        for k in ("probes", "faults", "stats"):
            merged[k].update(a[k])
        merged["traces"] |= a["traces"]
        merged["nontrivial_traces"] |= a["nontrivial_traces"]
        merged["violations"].extend(a["violations"])
        merged["errors"].extend(a["errors"])
        merged["digests"].update(a["digests"])
        for k, v in a["samples"].items():
            cur = merged["samples"].get(k)
            if cur is None or (k == "shortest" and v[0] < cur[0]) or (k == "longest" and v[0] > cur[0]):
                merged["samples"][k] = v
    return merged


# --------------------------------------------------------------------------
# shrinking (ddmin over the scenario's lists, then structural simplifiers)
# --------------------------------------------------------------------------
def _get_path(s, path):
    for p in path:
        s = s[p]
    return s


def _set_path(s, path, value):
    for p in path[:-1]:
        s = s[p]
    s[path[-1]] = value


def same_failure(v, target):
    return v["clause"] == target["clause"] and v.get("sig") == target.get("sig")


def shrink(mod, scenario, target, budget_exec=400, budget_s=60):
    t0 = time.time()
    execs = [0]

    def fails(cand):
        if execs[0] >= budget_exec or time.time() - t0 > budget_s:
            return None
        dom = getattr(mod, "in_domain", None)
        if dom is not None:
            try:
                if not dom(cand):
                    return None         # minimisation must not leave the domain the generator guarantees
            except Exception:
                return None
        execs[0] += 1
        try:
            out = execute_guarded(mod, cand)
        except Exception:
            return None
        for v in out.get("violations", []):
            if same_failure(v, target):
                return v
        return None

    best = copy.deepcopy(scenario)
    best_v = target
    changed = True
    rounds = 0
    while changed and rounds < 4:
        changed = False
        rounds += 1
        for path in mod.shrink_paths(best):
            items = list(_get_path(best, path))
            n = 2
            while len(items) >= 1 and n <= max(2, len(items)):
                size = math.ceil(len(items) / n)
                removed = False
                for start in range(0, len(items), size):
                    cand_items = items[:start] + items[start + size:]
                    cand = copy.deepcopy(best)
                    _set_path(cand, path, cand_items)
                    v = fails(cand)
                    if v is not None:
                        best, best_v, items = cand, v, cand_items
                        n = max(n - 1, 2)
                        removed = True
                        changed = True
                        break
                if not removed:
                    if size == 1:
                        break
                    n = min(n * 2, len(items))
                if execs[0] >= budget_exec or time.time() - t0 > budget_s:
                    break
        simp = getattr(mod, "simplify", None)
        if simp is not None:
            progress = True
            while progress:
                progress = False
                for cand in simp(best):
                    if scen_digest(cand) == scen_digest(best):
                        continue
                    v = fails(cand)
                    if v is not None:
                        best, best_v = cand, v
                        progress = True
                        changed = True
                        break
                if execs[0] >= budget_exec or time.time() - t0 > budget_s:
                    break
    return best, best_v, execs[0]


# --------------------------------------------------------------------------
# known findings
# --------------------------------------------------------------------------
def load_known():
    path = os.path.join(VERIF, "known_findings.json")
    if not os.path.exists(path):
        return []
    with open(path) as f:
        return json.load(f)["findings"]


def match_known(prop, v, known):
    for k in known:
        if k.get("status") != "open" or k.get("property") != prop:
            continue
        if k["signature"].get("clause") != v["clause"]:
            continue
        sig = v.get("sig", {})
        if all(sig.get(key) == val or (isinstance(val, list) and sig.get(key) in val)
               for key, val in k["signature"].items() if key != "clause"):
            return k
    return None


# --------------------------------------------------------------------------
# replay files
# --------------------------------------------------------------------------
def repo_head():
    try:
        return subprocess.run(["git", "-C", REPO, "rev-parse", "HEAD"], capture_output=True, text=True, timeout=20).stdout.strip()
    except Exception:
        return "unknown"


def write_replay(prop, seed, i, scenario, v, dig, dirname="replays"):
    d = os.environ.get("TESIM_REPLAY_DIR") or os.path.join(VERIF, dirname)
    os.makedirs(d, exist_ok=True)
    path = os.path.join(d, "{}-s{}-r{}.json".format(prop, seed, i))
    body = {
        "property": prop, "clause": v["clause"], "signature": v.get("sig", {}),
        "seed": seed, "run": i, "scenario": scenario,
        "expected": {"op": v.get("op"), "message": v.get("msg"), "digest": dig},
        "tesim_version": TESIM_VERSION, "repo_head": repo_head(),
    }
    with open(path, "w") as f:
        json.dump(body, f, indent=1, sort_keys=True)
    return path


def replay_file(path, quiet=False):
    with open(path) as f:
        body = json.load(f)
    prop = body["property"]
    mod = load_prop(prop)
    out = execute_guarded(mod, body["scenario"], limit=max(60, getattr(mod, "TIMEOUT", 10)))
    exp = body.get("expected", {})
    for v in out.get("violations", []):
        if v["clause"] == body["clause"] and v.get("sig", {}) == body.get("signature", {}):
            same = (exp.get("digest") in (None, out["digest"])) and (exp.get("op") in (None, v.get("op")))
            if not quiet:
                print("replay: {} clause={} op={} msg={}".format(prop, v["clause"], v.get("op"), v.get("msg")))
                print("replay: digest {} ({})".format(out["digest"], "identical to recorded" if same else "DIFFERS from recorded " + str(exp.get("digest"))))
            return prop, v, same, out
    return prop, None, False, out


# --------------------------------------------------------------------------
# determinism sample in a fresh interpreter with another hash seed
# --------------------------------------------------------------------------
def fresh_digests(prop, seed, indices, hashseed):
    env = dict(os.environ)
    env["PYTHONHASHSEED"] = str(hashseed)
    env["TESIM_NO_REEXEC"] = "1"
    cmd = [sys.executable, os.path.join(VERIF, "tesim_main.py"), "digests", prop,
           "--seed", str(seed), "--indices", ",".join(map(str, indices))]
    r = subprocess.run(cmd, capture_output=True, text=True, env=env, timeout=600)
    if r.returncode != 0:
        raise HarnessError("fresh interpreter failed: " + r.stderr[-800:])
    line = [l for l in r.stdout.splitlines() if l.startswith("DIGESTS ")][-1]
    return {int(k): tuple(v) for k, v in json.loads(line[8:]).items()}


# --------------------------------------------------------------------------
# evidence
# --------------------------------------------------------------------------
def write_evidence(prop, body):
    import jsonschema
    d = os.environ.get("TESIM_EVIDENCE_DIR") or os.path.join(VERIF, "evidence")
    os.makedirs(d, exist_ok=True)
    path = os.path.join(d, prop + ".json")
    schema_path = "/root/.vp/EVIDENCE.schema.json"
    if not os.path.exists(schema_path):
        schema_path = os.path.join(VERIF, "schemas", "EVIDENCE.schema.json")
    with open(schema_path) as f:
        schema = json.load(f)
    jsonschema.validate(body, schema)
    tmp = path + ".tmp"
    with open(tmp, "w") as f:
        json.dump(body, f, indent=1, sort_keys=True, default=str)
    os.replace(tmp, path)
    return path


# --------------------------------------------------------------------------
# the check itself
# --------------------------------------------------------------------------
def tier():
    """Tier of the running check; generators widen their size distributions in the thorough tier."""
    return os.environ.get("TESIM_TIER", "quick")


def run_check(prop, tier, seed, workers=None, runs=None, wall=None):
    t0 = time.time()
    os.environ["TESIM_TIER"] = tier
    mod = load_prop(prop)
    tpath = assert_repo_imported()
    workers = workers or int(os.environ.get("TESIM_WORKERS", os.cpu_count() or 4))
    n_runs = runs or int(os.environ.get("TESIM_RUNS", 0)) or mod.PLAN[tier]
    wall_cap = wall or float(os.environ.get("TESIM_WALL", 0)) or (240 if tier == "quick" else 1500)
    known = load_known()
    lines = []
    violations_reported = 0
    known_hit = Counter()
    harness_problems = []

    # 0. oracle self-check (hand-computed cases of the reference model)
    selfcheck = getattr(mod, "selfcheck", None)
    if selfcheck is not None:
        try:
            selfcheck()
        except Exception as e:
            harness_problems.append("oracle self-check failed: {!r}".format(e))

    # 1. corpus replay
    corpus_dir = os.path.join(VERIF, "corpus", prop)
    corpus_n = 0
    corpus_viol = []
    if os.path.isdir(corpus_dir):
        for name in sorted(os.listdir(corpus_dir)):
            if not name.endswith(".json"):
                continue
            with open(os.path.join(corpus_dir, name)) as f:
                body = json.load(f)
            scenario = body["scenario"] if "scenario" in body else body
            try:
                out = execute_guarded(mod, scenario, limit=60)
            except Exception as e:
                harness_problems.append("corpus {}: {!r}".format(name, e))
                continue
            corpus_n += 1
            for v in out.get("violations", [])[:1]:
                corpus_viol.append(("corpus:" + name, v, scenario, out["digest"]))

    # 2. exploration
    n_det = 0 if os.environ.get("TESIM_NO_DET") else (20 if tier == "quick" else 60)
    det_rng = mkrng(seed, prop, "det")
    det_idx = sorted(det_rng.sample(range(n_runs), min(n_det, n_runs)))
    merged = run_batch(prop, seed, n_runs, workers, wall_cap, det_idx)
    for (i, msg, tb) in merged["errors"][:5]:
        harness_problems.append("run {}: {}\n{}".format(i, msg, tb))

    # 3. determinism sample: fresh interpreter, other hash seed
    det = {"compared": 0, "equal": 0}
    if det_idx and not merged["stopped_early"]:
        try:
            other = fresh_digests(prop, seed, det_idx, 12345)
            for i in det_idx:
                if i in merged["digests"] and i in other:
                    det["compared"] += 1
                    if tuple(merged["digests"][i]) == tuple(other[i]):
                        det["equal"] += 1
                    else:
                        harness_problems.append("nondeterminism: run {} digests differ across interpreters".format(i))
        except Exception as e:
            harness_problems.append("determinism sample failed: {!r}".format(e))

    # 4. violations: known findings, shrink, replay files
    all_viol = corpus_viol + [(i, v, sc, dg) for (i, v, sc, dg) in merged["violations"]]
    seen_sigs = set()
    max_min = 1 if tier == "quick" else 5
    for (i, v, scenario, dig) in all_viol:
        k = match_known(prop, v, known)
        if k is not None:
            known_hit[k["id"]] += 1
            continue
        key = (v["clause"], jdump(v.get("sig", {})))
        if key in seen_sigs:
            continue
        seen_sigs.add(key)
        if len(seen_sigs) <= max_min:
            try:
                small, v2, nexec = shrink(mod, scenario, v)
                out2 = execute_guarded(mod, small, limit=60)
                dig2 = out2["digest"]
            except Exception as e:
                harness_problems.append("shrink failed: {!r}".format(e))
                small, v2, dig2 = scenario, v, dig
        else:
            small, v2, dig2 = scenario, v, dig
        # a minimised scenario may itself fall under a known finding
        path = write_replay(prop, seed, str(i).replace(":", "_"), small, v2, dig2)
        lines.append("VIOLATION property={} replay={}".format(prop, path))
        lines.append("  clause={} sig={} msg={}".format(v2["clause"], jdump(v2.get("sig", {})), v2.get("msg")))
        violations_reported += 1
    for k in known:
        if k.get("status") == "open" and k.get("property") == prop and known_hit.get(k["id"]):
            lines.append("KNOWN-FINDING: property={} {} [{}; hit {} times]".format(prop, k["what"], k["id"], known_hit[k["id"]]))

    # 5. self-assessment: probes must be reached, enough of the plan completed
    floors = getattr(mod, "PROBE_FLOORS", {})
    scale = merged["n"] / float(mod.PLAN["quick"]) if mod.PLAN["quick"] else 1.0
    if not os.environ.get("TESIM_RUNS") and runs is None:
        for name, floor in floors.items():
            if merged["probes"].get(name, 0) < max(1, int(floor * min(scale, 1.0))):
                harness_problems.append("workload does not reach probe '{}': {} < {}".format(name, merged["probes"].get(name, 0), floor))
    if merged["n"] < 0.25 * n_runs:
        harness_problems.append("only {} of {} planned runs completed".format(merged["n"], n_runs))
    post = getattr(mod, "post_batch", None)
    if post is not None:
        for p in post(merged):
            harness_problems.append(p)

    wall_s = time.time() - t0
    nontriv = len(merged["nontrivial_traces"])
    samples = []
    for key in ("shortest", "longest", "faulty"):
        if key in merged["samples"]:
            nops, i, desc = merged["samples"][key]
            samples.append({"which": key, "run": i, "ops": nops, "scenario": desc})
    body = {
        "property_id": prop, "tier": tier, "seed": int(seed), "level": "exploration",
        "wall_s": round(wall_s, 3), "violations": violations_reported,
        "assumptions": list(getattr(mod, "ASSUMPTIONS", [])),
        "coverage": {
            "evaluations": int(merged["n"]),
            "distinct_nontrivial": int(nontriv),
            "rule": mod.RULE,
            "samples": samples or [{"note": "no run completed"}],
            "planned_runs": int(n_runs), "completed_runs": int(merged["n"]),
            "stopped_early_by_wall_cap": bool(merged["stopped_early"]),
            "runs_per_hour": int(merged["n"] / max(wall_s, 1e-9) * 3600),
            "distinct_abstract_traces": len(merged["traces"]),
            "stats": dict(sorted(merged["stats"].items())),
            "faults_fired": dict(sorted(merged["faults"].items())),
            "probes": dict(sorted(merged["probes"].items())),
            "corpus_replayed": corpus_n,
            "known_findings_hit": dict(known_hit),
            "harness_errors": len(harness_problems),
            "determinism_sample": det,
            "components": getattr(mod, "COMPONENTS", {}),
            "tradingenv_path": tpath, "repo_head": repo_head(),
            "workers": workers, "tesim_version": TESIM_VERSION,
        },
    }
    if nontriv < 2 or merged["n"] < 1:
        harness_problems.append("fewer than 2 distinct non-trivial runs")
    else:
        try:
            write_evidence(prop, body)
        except Exception as e:
            harness_problems.append("evidence invalid: {!r}".format(e))

    for l in lines:
        print(l)
    print("{} tier={} seed={} runs={}/{} distinct_nontrivial={} violations={} known={} wall={:.1f}s".format(
        prop, tier, seed, merged["n"], n_runs, nontriv, violations_reported, sum(known_hit.values()), wall_s))
    if violations_reported:
        for p in harness_problems:
            print("HARNESS-ERROR " + p.replace("\n", "\n  "))
        return EXIT_VIOLATION
    if harness_problems:
        for p in harness_problems:
            print("HARNESS-ERROR " + p.replace("\n", "\n  "))
        return EXIT_HARNESS
    return EXIT_OK


# --------------------------------------------------------------------------
# CLI
# --------------------------------------------------------------------------
def main(argv):
    import argparse
    ap = argparse.ArgumentParser(prog="check")
    ap.add_argument("cmd")
    ap.add_argument("arg", nargs="?")
    ap.add_argument("--tier", default=os.environ.get("VERIF_TIER", "quick"))
    ap.add_argument("--seed", type=int, default=int(os.environ.get("VERIF_SEED", "1") or 1))
    ap.add_argument("--indices", default="")
    ap.add_argument("--replay", default=None)
    ap.add_argument("--runs", type=int, default=None)
    ap.add_argument("--workers", type=int, default=None)
    ap.add_argument("--wall", type=float, default=None)
    a = ap.parse_args(argv)
    if a.tier not in ("quick", "thorough"):
        a.tier = "quick"
    cmd = a.cmd
    if cmd == "replay" or a.replay:
        path = a.replay or a.arg
        prop, v, same, out = replay_file(path)
        if v is None:
            print("replay: no violation reproduced (digest {})".format(out["digest"]))
            return EXIT_OK
        print("VIOLATION property={} replay={}".format(prop, os.path.abspath(path)))
        return EXIT_VIOLATION if same else EXIT_HARNESS
    if cmd == "digests":
        mod = load_prop(a.arg)
        res = {}
        for i in [int(x) for x in a.indices.split(",") if x]:
            scenario, out = run_one(mod, a.seed, i)
            res[i] = (scen_digest(scenario), out["digest"])
        print("DIGESTS " + json.dumps(res))
        return EXIT_OK
    if cmd == "show":
        mod = load_prop(a.arg)
        for i in [int(x) for x in a.indices.split(",") if x]:
            scenario, out = run_one(mod, a.seed, i)
            print(json.dumps(scenario, indent=1))
            print(json.dumps({k: (dict(v) if isinstance(v, Counter) else v) for k, v in out.items() if k != "log"}, indent=1, default=str))
        return EXIT_OK
    if cmd == "resume-acct":
        # child of acct.AcctSim.checkpoint_and_resume: replays the script up to the checkpoint with its own objects,
        # swaps the parent's pickled exchange and broker in, and plays the rest
        import base64
        from tesim import acct
        with open(a.arg) as f:
            payload = json.load(f)
        with sim_context(prng_seed=payload["scenario"].get("prng", 0)):
            sim = acct.AcctSim(payload["scenario"], payload["prop"])
            sim.resume_blob = base64.b64decode(payload["blob"])
            out = sim.run()
        print("RESUMED " + json.dumps({"violations": out["violations"][:1]}, default=str))
        return EXIT_OK
    if cmd == "selftest-determinism":
        from tesim import selftest
        return selftest.determinism(a)
    if cmd.upper() in ALL_PROPS:
        return run_check(cmd.upper(), a.tier, a.seed, a.workers, a.runs, a.wall)
    print("unknown command", cmd)
    return EXIT_HARNESS
