"""Determinism self-test: `./check selftest-determinism [--runs N]`.

For a sample of (property, run index) pairs: the scenario bytes and the log
digest must be identical (i) when executed twice in one process, (ii) in pools
of 4 and 16 workers, (iii) in fresh interpreters re-exec'd with
PYTHONHASHSEED=0 and =12345.  Exit 0 if everything agrees, 3 otherwise."""
import os
import sys
import json
import subprocess
import multiprocessing
from concurrent.futures import ProcessPoolExecutor

from tesim import core


def _one(args):
    prop, seed, i = args
    mod = core.load_prop(prop)
    sc, out = core.run_one(mod, seed, i)
    return prop, i, core.scen_digest(sc), out["digest"]


def determinism(a):
    per_prop = a.runs or 20
    seed = a.seed
    pairs = []
    for prop in core.ALL_PROPS:
        mod = core.load_prop(prop)
        rng = core.mkrng(seed, prop, "selftest")
        n = min(per_prop, mod.PLAN["quick"])
        for i in sorted(rng.sample(range(mod.PLAN["quick"]), n)):
            pairs.append((prop, seed, i))
    print("selftest-determinism: {} (property, run) pairs".format(len(pairs)))
    problems = []
    # (i) twice in one process
    first = {}
    for p in pairs:
        r1 = _one(p)
        r2 = _one(p)
        first[(p[0], p[2])] = r1[2:]
        if r1 != r2:
            problems.append("same process: {} run {} differs between two executions".format(p[0], p[2]))
    # (ii) pools of 4 and 16 workers
    ctx = multiprocessing.get_context("fork")
    for workers in (4, 16):
        with ProcessPoolExecutor(max_workers=workers, mp_context=ctx) as pool:
            for prop, i, sd, dg in pool.map(_one, pairs, chunksize=3):
                if first[(prop, i)] != (sd, dg):
                    problems.append("pool of {}: {} run {} differs from the in-process execution".format(workers, prop, i))
    # (iii) fresh interpreters with two hash seeds
    by_prop = {}
    for prop, _, i in pairs:
        by_prop.setdefault(prop, []).append(i)
    for hs in (0, 12345):
        for prop, idx in by_prop.items():
            other = core.fresh_digests(prop, seed, idx, hs)
            for i in idx:
                if tuple(other[i]) != tuple(first[(prop, i)]):
                    problems.append("fresh interpreter PYTHONHASHSEED={}: {} run {} differs".format(hs, prop, i))
    for p in problems[:20]:
        print("HARNESS-ERROR nondeterminism: " + p)
    print("selftest-determinism: {} pairs x (2 in-process + pools of 4 and 16 + 2 fresh interpreters): {} disagreements".format(len(pairs), len(problems)))
    return core.EXIT_OK if not problems else core.EXIT_HARNESS
