"""Tabular-world executor: builds pandas tables from an explicit scenario and
drives the real TradingEnvXY (C18, and the tabular clause of C02)."""
import math
import warnings
from datetime import datetime, timedelta

import numpy as np
import pandas as pd

from tesim import core
from tesim.core import canon
from tradingenv.env import TradingEnvXY
from tradingenv.contracts import Rate, Asset

NAN = float("nan")


def gen_tables(rng, pf=None):
    """Explicit daily (or hourly) tables with F13 faults: NaN cells, missing
    rows, late / early ending feature table, rows on weekends and holidays."""
    pf = pf or {}
    n = rng.randint(pf.get("n_min", 30), pf.get("n_max", 120))
    start = core.parse_t(rng.choice(["2021-12-20T00:00:00", "2022-01-03T00:00:00", "2022-02-10T00:00:00", "2019-06-20T00:00:00",
                                     "2018-11-15T00:00:00", "2020-12-21T00:00:00"]))
    freq = rng.choice(pf.get("freqs", ["B", "B", "D", "H6"]))
    dates = []
    t = start
    while len(dates) < n:
        if freq in ("D", "H6") or t.weekday() < 5:
            dates.append(t)
        t += timedelta(hours=6) if freq == "H6" else timedelta(days=1)
    nx, ny = rng.randint(1, 4), rng.randint(1, 3)
    X = [[rng.gauss(0, 1) * rng.choice([1, 1, 3]) for _ in range(nx)] for _ in range(n)]
    Y = []
    px = [rng.choice([10.0, 100.0, 2500.0]) for _ in range(ny)]
    for _ in range(n):
        px = [p * (1 + rng.gauss(0, 0.01)) for p in px]
        Y.append(list(px))
    xi = list(range(n))
    faults = []
    if rng.random() < 0.4:
        for _ in range(rng.randint(1, 6)):
            X[rng.randrange(n)][rng.randrange(nx)] = NAN
        faults.append("x_nan_cells")
    if rng.random() < 0.3 and nx > 1:
        # one feature column is published only from some later date on (leading missing values)
        j = rng.randrange(nx)
        m = rng.randint(n // 4, (3 * n) // 4)
        for r in range(m):
            X[r][j] = NAN
        faults.append("x_col_starts_late")
    if rng.random() < 0.3:
        k = rng.randint(1, 10)
        xi = xi[k:]
        faults.append("x_starts_late")
    if rng.random() < 0.3:
        k = rng.randint(1, 10)
        xi = xi[:-k]
        faults.append("x_ends_early")
    if rng.random() < 0.3 and len(xi) > 6:
        drop = set(rng.sample(xi[1:-1], k=min(5, len(xi) - 2)))
        xi = [j for j in xi if j not in drop]
        faults.append("x_missing_rows")
    if rng.random() < 0.3 and ny > 1:
        for _ in range(rng.randint(1, 4)):
            Y[rng.randrange(5, n)][rng.randrange(ny)] = NAN
        faults.append("y_nan_cells")
    rate = None
    if rng.random() < 0.5:
        rate = [round(rng.uniform(0, 0.05), 5) for _ in range(n)]
        if rng.random() < 0.5:
            # stretches at exactly zero and below zero (legal: the library accepts rates in [-1, 1])
            k = 0
            while k < n:
                run = rng.randint(1, max(1, n // 4))
                level = rng.choice([None, None, 0.0, -0.004, -0.02])
                if level is not None:
                    for j in range(k, min(n, k + run)):
                        rate[j] = level
                k += run
    xcols = ["x{}".format(j) for j in range(nx)]
    if rng.random() < 0.4:
        # feature names that are not in sorted order (the published column order is what an observation follows)
        names = ["momentum", "carry", "value", "b", "a", "f10", "f2", "Z", "size", "vol", "quality", "beta"]
        rng.shuffle(names)
        xcols = names[:nx] if nx <= len(names) else xcols
    return {
        "dates": [core.iso(d) for d in dates], "x_rows": xi, "X": [X[j] for j in xi], "Y": Y, "rate": rate,
        "xcols": xcols, "ycols": ["y{}".format(j) for j in range(ny)], "faults": faults, "freq": freq,
    }


def build_frames(tb):
    dates = [pd.Timestamp(d) for d in tb["dates"]]
    off = pd.Timedelta(seconds=tb.get("x_offset_s") or 0)      # feature rows published a little after the price rows
    if tb.get("x_offset_ns"):
        off = off + pd.Timedelta(nanoseconds=tb["x_offset_ns"])     # ... by less than a microsecond (nanosecond-resolution index)
    X = pd.DataFrame(tb["X"], index=[dates[j] + off for j in tb["x_rows"]], columns=tb["xcols"], dtype=float)
    Y = pd.DataFrame(tb["Y"], index=dates, columns=tb["ycols"], dtype=float)
    # (rate_index: the reference rate is published on dates of its own - first of the month, calendar days - not on the price dates)
    ridx = [pd.Timestamp(d) for d in tb["rate_index"]] if tb.get("rate_index") else dates
    rate = pd.Series(tb["rate"], index=ridx, name="r", dtype=float) if tb.get("rate") is not None else None
    return X, Y, rate


def make_env(scenario):
    X, Y, rate = build_frames(scenario["tables"])
    kw = dict(scenario["kwargs"])
    if kw.get("folds"):
        kw["folds"] = {k: [pd.Timestamp(a), pd.Timestamp(b)] for k, (a, b) in kw["folds"].items()}
    for key in ("start", "end", "transformer_end"):
        if kw.get(key):
            kw[key] = pd.Timestamp(kw[key])
    tr = kw.get("transformer")
    if isinstance(tr, str) and tr.startswith("prefit:"):
        # the caller hands over a transformer instance it has fitted itself, on the rows up to prefit_end
        from sklearn.preprocessing import StandardScaler, PowerTransformer
        est = StandardScaler() if tr.endswith("z-score") else PowerTransformer()
        with warnings.catch_warnings():
            warnings.simplefilter("ignore")
            est.fit(X.loc[:pd.Timestamp(kw.pop("prefit_end"))])
        kw["transformer"] = est
    with warnings.catch_warnings():
        warnings.simplefilter("ignore")
        if scenario.get("shared_first"):
            # the caller builds two environments from the very same table objects: first a full-sample one
            # (no transformer_end), then the one that is used; the second must not see what the first did
            kw0 = {k: v for k, v in kw.items() if k != "transformer_end"}
            Xs, Ys, rs = X.copy(), Y.copy(), (rate.copy() if rate is not None else None)
            TradingEnvXY(Xs, Ys, rate=rs, **kw0)
            env = TradingEnvXY(Xs, Ys, rate=rs, **kw)
        else:
            env = TradingEnvXY(X.copy(), Y.copy(), rate=rate.copy() if rate is not None else None, **kw)
    return env, X, Y, rate


def snapshot(env, ycols):
    out = {}
    for c in env.Y.columns:
        b = env.exchange[c]
        out[str(c.symbol)] = (b.bid_price, b.ask_price)
    return out


def run_episode(env, actions, fold=None, np_seed=0, max_steps=None):
    """Returns a list of records (one for reset, one per step)."""
    np.random.seed(np_seed % (2 ** 32))
    with warnings.catch_warnings():
        warnings.simplefilter("ignore")
        kwargs = {"fold": fold} if fold is not None else {}
        obs = env.reset(**kwargs)
        recs = [rec_of(env, obs, None, getattr(env, "_done", False), "reset")]
        done = getattr(env, "_done", False)
        k = 0
        while not done and (max_steps is None or k < max_steps):
            a = np.array(actions[k % len(actions)], dtype=float)
            try:
                obs, reward, done, info = env.step(a)
            except Exception as e:
                recs.append({"kind": "step", "exc": core.exc_name(e), "msg": str(e)[:200]})
                break
            recs.append(rec_of(env, obs, reward, done, "step"))
            k += 1
    return recs


def rec_of(env, obs, reward, done, kind):
    hq = env.broker.holdings_quantity
    try:
        nlv = float(env.broker.net_liquidation_value(raise_if_broke=False))
    except Exception as e:
        nlv = "ERR:" + core.exc_name(e)
    rb = env.exchange[env.broker.fees.interest_rate]
    tr = env.broker.track_record
    last = None
    if len(tr):
        r = tr[-1]
        last = {"time": r.time, "alloc": {str(k.symbol): float(v) for k, v in r.allocation.items()},
                "trades": [(t.contract.symbol, float(t.quantity), float(t.acq_price)) for t in r.trades],
                "pre": float(r.context_pre.nlv), "post": float(r.context_post.nlv)}
    return {"kind": kind, "exc": None, "now": env.now(), "obs": np.array(obs, dtype=float), "reward": None if reward is None else float(reward),
            "done": bool(done), "books": snapshot(env, None), "rate": (rb.bid_price, rb.ask_price),
            "hold": {str(getattr(c, "symbol", c)): float(q) for c, q in hq.items() if q != 0}, "nlv": nlv, "n_rec": len(tr), "last": last}


def log_digestable(recs):
    return [canon(r) for r in recs]
