"""Swarm generator of episode-level worlds (one environment spec) and scripts.

A world = contracts, timestep grid (with the order/duplicates it is handed to
the Transmitter in), an event list in insertion order with explicit ids,
latency, delay, folds, warm-up / markov reset, reward, fees, action space.
Placement of extra events is biased to the boundaries the properties speak
about: exactly on a grid point, just after it, exactly on t+latency, one
microsecond either side, mid-interval, before the grid, after its end."""
from datetime import datetime, timedelta

from tesim import core
from tesim.epimodel import Delivery

US = timedelta(microseconds=1)
REWARDS = [{"cls": "RewardSimpleReturn"}, {"cls": "RewardLogReturn"}, {"cls": "RewardPnL"},
           {"cls": "LogReturn", "scale": 0.01, "clip": 2.0, "risk_aversion": 0.1},
           {"cls": "LogReturn", "scale": 1.0, "clip": 0.005, "risk_aversion": 0.0}]
T0S = ["2019-01-01T10:00:00", "2019-01-01T23:50:00", "2019-03-08T09:30:00", "2019-06-28T23:58:00"]


def gen_contract_spec(rng, i, pf):
    kinds = pf.get("contract_kinds", ["ETF", "ETF", "spot", "margined", "future"])
    kind = rng.choice(kinds)
    if kind == "ETF":
        return {"name": "E{}".format(i), "kind": rng.choice(["ETF", "Stock", "Index"])}
    if kind == "spot":
        return {"name": "S{}".format(i), "kind": "spot", "mult": rng.choice([1, 2, 5, 0.1])}
    if kind == "margined":
        return {"name": "M{}".format(i), "kind": "margined", "mult": rng.choice([1, 8, 50]), "mreq": rng.choice([0.05, 0.1, 0.5, 1.0])}
    cls = rng.choice(["ES", "NK", "ZN"])
    return {"name": "{}{}".format(cls, i), "kind": "future", "cls": cls, "year": 2031 + i, "month": 3 * rng.randint(1, 4)}


def gen_grid(rng, pf):
    n = rng.randint(pf.get("n_min", 2), pf.get("n_max", 12))
    thorough = core.tier() == "thorough"
    if rng.random() < pf.get("p_long", 0.05) * (3 if thorough else 1):
        # thorough tier: more and longer episodes in the tail
        n = rng.randint(pf.get("n_max", 12), int(pf.get("n_long", 40) * (2 if thorough else 1)))
    t0 = core.parse_t(rng.choice(pf.get("t0s", T0S)))
    style = rng.choice(pf.get("grid_styles", ["regular", "irregular", "irregular", "daily"]))
    gaps = []
    base = rng.choice([60, 120, 600, 3600])
    if style == "calendar":
        # consecutive decision times on different dates that share calendar fields (same day of the month, same
        # weekday, same day and month of another year)
        mode = rng.choice(["monthly", "monthly", "yearly", "weekly", "quarterly"])
        t = t0.replace(day=min(t0.day, 28))
        t0 = t
        for _ in range(n - 1):
            if mode == "weekly":
                u = t + timedelta(days=7)
            else:
                months = {"monthly": 1, "quarterly": 3, "yearly": 12}[mode]
                y, m = divmod(t.month - 1 + months, 12)
                u = t.replace(year=t.year + y, month=m + 1)
            gaps.append(int((u - t).total_seconds()))
            t = u
        return [t0 + timedelta(seconds=sum(gaps[:k])) for k in range(n)], gaps
    for _ in range(n - 1):
        if style == "regular":
            gaps.append(base)
        elif style == "daily":
            gaps.append(86400 if rng.random() < 0.8 else 3 * 86400)
        else:
            gaps.append(rng.choice([60, 60, 120, 600, 86400, 7]))
    grid = [t0]
    for g in gaps:
        grid.append(grid[-1] + timedelta(seconds=g))
    return grid, gaps


def gen_env(rng, pf):
    grid, gaps = gen_grid(rng, pf)
    n = len(grid)
    mingap_us = min(gaps) * 10 ** 6 if gaps else 10 ** 12
    lat_choices = pf.get("latencies", [0, 0, 1, 10 ** 7, 3 * 10 ** 7, mingap_us - 1, mingap_us // 2])
    lat_us = rng.choice(lat_choices)
    if lat_us == "gap-1":
        lat_us = mingap_us - 1
    if lat_us >= mingap_us:
        lat_us = rng.choice([0, mingap_us - 1])
    lat = timedelta(microseconds=lat_us)
    nc = rng.randint(pf.get("c_min", 1), pf.get("c_max", 3))
    specs = [gen_contract_spec(rng, i, pf) for i in range(nc)]
    spread = rng.choice(pf.get("spreads", [0, 0, 0.001, 0.01]))
    px = [rng.choice([10.0, 100.0, 2500.0]) for _ in specs]
    vol = pf.get("vol", 0.03)
    events = []

    def add(ev):
        ev["id"] = len(events)
        events.append(ev)

    def quote(t, c, mid):
        add({"t": core.iso(t), "type": "nbbo", "c": c, "bid": mid * (1 - spread / 2), "ask": mid * (1 + spread / 2)})

    p_bar = pf.get("p_bar", 1.0)
    sparse = rng.random() < pf.get("p_sparse_grid", 0.0)
    for gi, g in enumerate(grid):
        skip_all = sparse and 0 < gi and rng.random() < 0.2
        for c in range(nc):
            px[c] *= 1 + rng.uniform(-vol, vol)
            if skip_all:
                continue
            if c == 0 or (gi == 0 and pf.get("bar_at_first")) or rng.random() < p_bar:
                quote(g, c, px[c])
    n_extra = rng.randint(0, pf.get("extras_max", 12)) if rng.random() < pf.get("p_extras", 0.8) else 0
    kinds = pf.get("extra_kinds", ["nbbo", "nbbo", "custom", "custom", "obs"])
    for _ in range(n_extra):
        gi = rng.randrange(n)
        g = grid[gi]
        gap = gaps[gi] if gi < n - 1 else (gaps[-1] if gaps else 60)
        off = rng.choice([timedelta(0), US, lat, lat + US, (lat - US) if lat_us > 0 else US,
                          timedelta(microseconds=rng.randrange(1, gap * 10 ** 6)),
                          -timedelta(microseconds=rng.randrange(1, gap * 10 ** 6)),
                          timedelta(days=-3), timedelta(days=2), timedelta(seconds=gap) - US])
        t = g + off
        kind = rng.choice(kinds)
        if kind == "nbbo":
            c = rng.randrange(nc)
            quote(t, c, px[c] * (1 + rng.uniform(-0.01, 0.01)))
        elif kind == "custom":
            add({"t": core.iso(t), "type": "custom", "cls": rng.choice(["EvA", "EvB", "EvC"]), "tag": len(events)})
        else:
            add({"t": core.iso(t), "type": "obs", "data": [round(rng.uniform(-2, 2), 4) for _ in range(2)]})
    rate_on = rng.random() < pf.get("p_rate", 0.3)
    if rate_on:
        for g in grid:
            if rng.random() < 0.4:
                r = rng.choice([0.01, 0.03, 0.0, -0.01, 0.1])
                add({"t": core.iso(g), "type": "rate", "r": r})
    # insertion order (ids stay attached to the events)
    order = rng.choice(pf.get("orders", ["sorted", "sorted", "reversed", "shuffled"]))
    if order == "reversed":
        events = events[::-1]
    elif order == "shuffled":
        rng.shuffle(events)
    grid_input = list(range(n))
    if rng.random() < pf.get("p_dup_timesteps", 0.3):
        grid_input += [rng.randrange(n) for _ in range(rng.randint(1, 3))]
    if rng.random() < pf.get("p_unsorted_timesteps", 0.5):
        rng.shuffle(grid_input)
    folds = None
    if rng.random() < pf.get("p_folds", 0.4) and n >= 4:
        k = rng.randint(1, n - 2)
        style = rng.choice(["disjoint", "overlap", "single", "nested", "same_start"])
        if style == "disjoint":
            folds = {"a": [core.iso(grid[0]), core.iso(grid[k])], "b": [core.iso(grid[k + 1] if k + 1 < n else grid[k]), core.iso(grid[-1])]}
        elif style == "overlap":
            folds = {"a": [core.iso(grid[0]), core.iso(grid[k])], "b": [core.iso(grid[max(0, k - 1)]), core.iso(grid[-1])]}
        elif style == "single":
            folds = {"a": [core.iso(grid[0]), core.iso(grid[k])], "b": [core.iso(grid[k]), core.iso(grid[k])]}
        elif style == "same_start":
            # two folds that start together and end apart, the longer one listed first
            folds = {"a": [core.iso(grid[0]), core.iso(grid[-1])], "b": [core.iso(grid[0]), core.iso(grid[k])]}
        else:
            folds = {"a": [core.iso(grid[0]), core.iso(grid[-1])], "b": [core.iso(grid[1]), core.iso(grid[k])]}
        if rng.random() < 0.3:
            # window bounds off the grid points
            a, b = folds["b"]
            folds["b"] = [core.iso(core.parse_t(a) - timedelta(seconds=1)), core.iso(core.parse_t(b) + timedelta(seconds=1))]
    markov = rng.random() < pf.get("p_markov", 0.25)
    warm = None
    if rng.random() < pf.get("p_warmup", 0.35):
        warm = rng.choice([0, 60, 600, 90000, 7 * 86400])
    delay = rng.choice(pf.get("delays", [0, 0, 1, 2]))
    space = gen_space(rng, pf, nc)
    env = {
        "contracts": specs, "grid": [core.iso(g) for g in grid], "grid_input": grid_input, "events": events,
        "latency_us": lat_us, "delay": delay, "reward": rng.choice(pf.get("rewards", REWARDS)),
        "fees": {"fixed": rng.choice(pf.get("fixed_fees", [0, 0, 0.01])), "prop": rng.choice([0, 0, 1e-4, 1e-3]),
                 "markup": rng.choice([0, 0.005]) if rate_on else 0.0},
        # accounts trading futures (notional per contract up to millions) are funded so that positions stay
        # far above the broker's documented flattening epsilon of 1e-7 contracts
        "cash": rng.choice(pf.get("cash", [100.0, 1e5, 1e6])) if not any(c["kind"] == "future" for c in specs) else rng.choice([1e6, 1e7]),
        "space": space, "folds": folds, "markov": markov, "warmup_s": warm,
        "episode_length": None, "sampling_span": None,
        "spread": spread,
        "ts_type": rng.choice(pf.get("ts_types", ["datetime", "datetime", "datetime", "timestamp", "timestamp", "mixed_grid_ts", "mixed_events_ts"])),
        "state": {"type": "rec", "feature": rng.random() < 0.7, "k": rng.randint(1, 4)},
    }
    if pf.get("p_custom_frame") and rng.random() < pf["p_custom_frame"]:
        route_custom_via_frame(rng, env)
    if pf.get("p_prices_table") and rng.random() < pf["p_prices_table"]:
        route_quotes_via_add_prices(rng, env, spread, share=rng.choice([1.0, 1.0, 0.6]))
    return env


def route_quotes_via_add_prices(rng, env, spread, share=1.0):
    """Quotes (and reference-rate quotes) are handed to the transmitter as one table of mid prices with
    Transmitter.add_prices(table, spread): index = time, one column per contract. Bid and ask of the routed
    events are set to exactly what that loader computes from the mid price (price -/+ price*spread/2)."""
    n = 0
    for es in env["events"]:
        if es.get("late") or es.get("via_frame"):
            continue
        if es["type"] == "nbbo" and isinstance(es["c"], int) and es["bid"] == es["bid"] and es["ask"] == es["ask"] and rng.random() < share:
            price = (es["bid"] + es["ask"]) / 2
            c = es["c"]
        elif es["type"] == "rate" and rng.random() < share:
            price = es["r"]
            c = "rate"
        else:
            continue
        half = price * spread / 2
        es.update({"type": "nbbo" if c != "rate" else "rate", "c": c, "price": price, "bid": price - half, "ask": price + half, "via_prices": True})
        n += 1
    if n:
        env["prices_spread"] = spread
    return n


def route_custom_via_frame(rng, env):
    """Custom events are loaded with Transmitter.add_custom_events from a table whose index is the
    time the row becomes known; the table also carries its own 'time' column (the period a figure
    refers to), which must play no role in delivery.  The rows are loaded after the other events,
    class by class (the delivery model ranks insertion order accordingly)."""
    rest = [e for e in env["events"] if e["type"] != "custom"]
    cust = [e for e in env["events"] if e["type"] == "custom"]
    if not cust:
        return
    out = []
    for cls in ("EvA", "EvB", "EvC"):
        rows = [e for e in cust if e["cls"] == cls]
        for e in rows:
            t = core.parse_t(e["t"])
            e["via_frame"] = True
            e["ref_t"] = core.iso(t + rng.choice([timedelta(0), timedelta(days=-1), timedelta(days=-3), timedelta(seconds=-60),
                                                  timedelta(days=-30), timedelta(days=1)]))
        out += rows
    env["events"] = rest + out


def gen_space(rng, pf, nc):
    kind = rng.choice(pf.get("spaces", ["box", "box", "discrete"]))
    if kind == "box":
        low, high = rng.choice(pf.get("box_bounds", [(-1.0, 1.0), (0.0, 1.0), (-0.5, 1.5)]))
        sp = {"type": "box", "low": low, "high": high, "as_weights": True, "fractional": True, "margin": rng.choice(pf.get("margins", [0.0]))}
    else:
        m = rng.randint(2, 5)
        allocs = [[0.0] * nc]
        for _ in range(m - 1):
            allocs.append([rng.choice([0.0, 0.25, 0.5, -0.25, 0.3]) for _ in range(nc)])
        sp = {"type": "discrete", "allocations": allocs, "as_weights": True, "fractional": True}
    if rng.random() < pf.get("p_with_cash", 0.2):
        sp["with_cash"] = True
        sp["cash_pos"] = rng.randint(0, nc)
        if sp["type"] == "discrete":
            for a in sp["allocations"]:
                a.insert(min(sp["cash_pos"], nc), rng.choice([0.0, 0.5]))
    return sp


def gen_action(rng, env, unique_tag=None, max_gross=1.2):
    sp = env["space"]
    n = len(env["contracts"]) + (1 if sp.get("with_cash") else 0)
    if sp["type"] == "discrete":
        return rng.randrange(len(sp["allocations"]))
    low, high = sp["low"], sp["high"]
    w = [round(rng.uniform(max(low, -0.6), min(high, 0.6)), 6) if rng.random() < 0.85 else 0.0 for _ in range(n)]
    gross = sum(abs(x) for x in w)
    if gross > max_gross:
        w = [round(x * max_gross / gross, 6) for x in w]
    if unique_tag is not None and n > 0:
        # make every submitted vector distinct (attributable to one submission)
        j = unique_tag % n
        w[j] = round(min(max(w[j] + (unique_tag + 1) * 1e-5, low), high), 7)
    return w


def episode_steps(env, fold):
    """Model-side number of step() calls a full episode needs (bars at every
    timestep are assumed), used to size scripts."""
    d = Delivery(env, auto_disc(env))
    steps = d.fold_steps(fold)
    return steps


def auto_disc(env):
    """(symbol, expiry) of the discontinuation events the environment adds by
    itself for futures and chain members, in the order it adds them.  The
    expiry instants are read from the library's calendar classes (C19's
    business) - they are data here."""
    from tesim import world
    out = []
    for s in env["contracts"]:
        if s["kind"] == "future":
            c = world.build_contract(s)
            out.append((c.symbol, c.expiry if isinstance(c.expiry, datetime) else c.expiry.to_pydatetime()))
        elif s["kind"] == "chain":
            c = world.build_contract(s)
            for f in c.contracts:
                e = f.expiry
                out.append((f.symbol, e if type(e) is datetime else e.to_pydatetime()))
    return out


def full_episode_script(rng, env, tag=0, fold=None, unique=False, np_seed=None, extra_tail=0):
    steps = episode_steps(env, fold)
    L = env.get("episode_length")
    nsteps = max(len(steps) - 1, 0) if not L else L
    script = [{"op": "reset", "env": tag, "fold": fold, "np_seed": np_seed if np_seed is not None else rng.randrange(2 ** 31)}]
    for k in range(nsteps + extra_tail):
        script.append({"op": "step", "env": tag, "action": gen_action(rng, env, unique_tag=k if unique else None)})
    return script


def describe(scenario):
    envs = []
    for e in scenario["envs"]:
        envs.append({"contracts": e["contracts"], "grid_n": len(e["grid"]), "grid_first": e["grid"][0], "grid_last": e["grid"][-1],
                     "events_n": len(e["events"]), "latency_us": e["latency_us"], "delay": e["delay"], "folds": e["folds"],
                     "markov": e["markov"], "warmup_s": e["warmup_s"], "reward": e["reward"], "fees": e["fees"],
                     "space": {k: v for k, v in e["space"].items() if k != "allocations"}, "episode_length": e.get("episode_length"),
                     "events_head": e["events"][:6]})
    return {"envs": envs, "script_len": len(scenario["script"]), "script_head": scenario["script"][:8]}


def with_backtest_driver(generate, p=0.2):
    """Wraps a property's generate(): a share p of its episode scenarios is driven by the library's own
    episode driver (TradingEnv.backtest with a scripted policy) instead of direct reset()/step() calls;
    the recorded calls, and therefore every oracle, are the same in both cases (epi.EpiSim.do_backtest)."""
    def wrapped(rng, i, *args, **kwargs):
        sc = generate(rng, i, *args, **kwargs)
        if isinstance(sc, dict) and sc.get("kind") == "epi" and not sc.get("construct_only") and rng.random() < p:
            sc["driver"] = "backtest"
        return sc
    wrapped.__wrapped__ = generate
    return wrapped


def add_timesteps_later(scenario, share=0.2):
    """Schedule dimension: part of the decision grid is handed to the transmitter after it was built
    (Transmitter.add_timesteps).  Decided from the scenario's own prng field so that no draw of the
    generator's stream is consumed."""
    import random
    r = random.Random("later:{}".format(scenario.get("prng")))
    for env in scenario.get("envs", []):
        n = len(env.get("grid_input") or env["grid"])
        if n >= 2 and r.random() < share and not env.get("grid_shared_with"):
            env["grid_added_later"] = r.randint(1, n - 1)
    return scenario
