"""C09 - insolvency safety: an account with NLV <= 0 never trades and the episode ends."""
import copy
from datetime import timedelta
from fractions import Fraction as F

from tesim import core, epi, gen_epi, epicheck
from tesim.epimodel import Delivery

PROP = "C09"
PLAN = {"quick": 4000, "thorough": 200000}
TIMEOUT = 30
CHUNK = 100
RULE = ("seeded episodes with leveraged long / short positions in spot, user-defined and futures contracts and an injected "
        "price shock sized from the leverage so that NLV crosses zero (or hits exactly zero in a dyadic sub-world), landing in "
        "the latent batch (ruin on arrival), the non-latent batch (ruin after the trade) or caused by the decision's own fees "
        "(F11), on the first step or later, optionally followed by a recovery quote; every reward class; after the terminal "
        "step a tail of further step() calls and a reset() followed by steps. Checked online per step: no position change and "
        "no track-record entry whenever NLV <= 0 at decision time; the default valuation raises EndOfEpisodeError iff NLV <= 0 "
        "and raise_if_broke=False returns the number; every step after the end is refused until reset, after which the "
        "environment works; the ruin step returns done=True. Non-trivial: ruin reached and >=1 probe; distinct = (phase, "
        "contract kind, side, shock step, reward, recovery, exact-zero, tail shape)")
ASSUMPTIONS = [
    "NLV at decision time is recomputed by an independent ledger from the recorded trades and the book snapshot at the execution point",
    "clause 'ruin step returns done' has three open known findings (D6 arrival / post-trade, D7 own costs), matched by phase, exception type and raising site; anything else is reported",
    "raising EndOfEpisodeError at the ruin step after marking the episode done counts as 'ends the episode' for the refuse-further-steps clause",
]
COMPONENTS = {"real": ["TradingEnv.step", "Broker.rebalance/net_liquidation_value", "rewards.*", "Transmitter", "Exchange"],
              "harness": ["shock generator", "independent Fraction ledger"], "stub": []}
PROBE_FLOORS = {"neighbour_environment_through_the_same_shock": 50, "ruin_on_arrival": 21, "ruin_post_trade": 100, "ruin_exactly_zero": 20, "ruin_on_first_step": 36,
                "ruin_by_own_costs": 50, "steps_attempted_after_end": 300, "recovery_after_ruin": 50, "reset_after_ruin_works": 20, "ruin_inside_spread_band": 12, "end_of_episode_handler_failed": 10, "ruin_episode_replayed": 120, "insolvent_only_after_interest_is_charged": 25, "quote_pushed_between_steps": 15, "ruin_by_a_quote_of_exactly_zero": 18}


def generate(rng, i):
    n = rng.randint(4, 9)
    exact = rng.random() < 0.12
    gap = rng.choice([60, 3600, 86400])
    t0 = core.parse_t(rng.choice(["2019-01-01T10:00:00", "2019-01-01T23:50:00"]))
    grid = [t0 + timedelta(seconds=gap * k) for k in range(n)]
    lat_us = rng.choice([0, 0, 10 ** 6, 30 * 10 ** 6])
    if lat_us >= gap * 10 ** 6:
        lat_us = 0
    phase = rng.choice(["latent", "nonlatent", "nonlatent", "own_costs"]) if lat_us else rng.choice(["nonlatent", "nonlatent", "own_costs"])
    if exact and phase == "own_costs":
        phase = "nonlatent"
    interest_arm = (not exact) and phase == "nonlatent" and rng.random() < 0.12
    notify_arm = (not exact) and (not interest_arm) and phase == "nonlatent" and lat_us == 0 and rng.random() < 0.12
    lat = timedelta(microseconds=lat_us)
    kind = rng.choice(["ETF", "spot", "margined", "future"])
    if exact:
        spec = rng.choice([{"name": "S0", "kind": "spot", "mult": 1.0}, {"name": "M0", "kind": "margined", "mult": 2.0, "mreq": 0.25}])
    elif kind == "ETF":
        spec = {"name": "E0", "kind": "ETF"}
    elif kind == "spot":
        spec = {"name": "S0", "kind": "spot", "mult": rng.choice([1, 5])}
    elif kind == "margined":
        spec = {"name": "M0", "kind": "margined", "mult": rng.choice([1, 50]), "mreq": rng.choice([0.1, 0.5])}
    else:
        spec = {"name": "ES0", "kind": "future", "cls": rng.choice(["ES", "NK"]), "year": 2031, "month": 12}
    specs = [spec]
    two = rng.random() < 0.3 and not exact
    if two:
        specs.append({"name": "E1", "kind": "ETF"})
    w = rng.choice([2.0, 3.0, 1.5, -1.5, -2.5, -1.0]) if not exact else rng.choice([2.0, -1.0])
    crit = 1 - 1 / w
    spread = 0.0 if exact else rng.choice([0, 0, 0.001])
    # 'band' arm: a wide spread and a shock that lands between the two solvency boundaries (the account is worth
    # <= 0 at the liquidation side of the quote but > 0 at the other side), for either sign of the position
    band = (not exact) and phase != "own_costs" and rng.random() < 0.15 and not (phase == "nonlatent" and lat_us == 0 and False)
    if band:
        spread = rng.choice([0.02, 0.05])
    if exact:
        f = crit
    elif band:
        lo_s, hi_s = (1 - spread / 2), (1 + spread / 2)
        # long: bought at ask0 = p*hi_s, valued at bid' = p*f*lo_s; short: sold at bid0 = p*lo_s, valued at ask' = p*f*hi_s
        f_liq = crit * (hi_s / lo_s if w > 0 else lo_s / hi_s)        # NLV = 0 at the liquidation side
        f_other = crit                                               # NLV = 0 if valued at the entry side
        u = rng.uniform(0.25, 0.75)
        f = f_liq + u * (f_other - f_liq)
    elif w > 0:
        f = crit * rng.uniform(0.3, 0.95)
    else:
        f = crit * rng.uniform(1.05, 3.0)
    kshock = rng.randint(1, n - 2)
    p = 64.0 if exact else rng.choice([10.0, 100.0, 2500.0])
    if interest_arm:
        # the account survives the shock with 1% of its equity, then 200 days pass: the interest owed on the borrowed
        # cash exceeds what is left, so the account is insolvent when the next decision arrives - only once the
        # interest of the elapsed period is counted
        w = rng.choice([2.0, 3.0])
        spread, band = 0.0, False
        f = 1 - (1 - 0.01) / w
        # the long gap lies between the last rebalance before the shock and the shocked bar (no decision in between)
        grid = grid[:kshock] + [grid[kshock - 1] + timedelta(days=200) + timedelta(seconds=gap * j) for j in range(len(grid) - kshock)]
    events = []

    def add(t, c, mid):
        events.append({"t": core.iso(t), "type": "nbbo", "c": c, "bid": mid * (1 - spread / 2), "ask": mid * (1 + spread / 2), "id": len(events)})

    recovery = rng.random() < 0.4 and phase != "own_costs" and not interest_arm and not notify_arm
    # notify arm, two contracts: the victim's bars are stamped two seconds before the other contract's, and the pushed
    # quote is stamped in between - newer than anything the victim's book has seen, older than the exchange's latest quote
    older_stamp = notify_arm and two and rng.random() < 0.6
    for k, g in enumerate(grid):
        shocked = ((k > kshock) or (k == kshock and phase == "nonlatent")) and not notify_arm
        if phase == "latent":
            shocked = k >= kshock
        if phase == "own_costs":
            shocked = False
        price = p * f if shocked else p
        if recovery and k > kshock:
            price = p
        add(g - timedelta(seconds=2) if older_stamp else g, 0, price)
        if two:
            add(g, 1, 50.0)
        if phase == "latent" and k == kshock - 1:
            add(g + lat, 0, p * f)            # exactly on the latency bound: applied before the next decision
        if recovery and k == kshock and lat_us:
            add(g + lat, 0, p)                # recovery right after the ruin, applied before the next decision
    cash = 1024.0 if exact else rng.choice([1000.0, 1e5])
    fees = {"fixed": 0.0, "prop": 0.0, "markup": 0.0}
    if phase == "own_costs":
        fees["fixed"] = cash * rng.choice([0.6, 1.1, 0.35])
    elif not exact and rng.random() < 0.3 and not interest_arm:
        fees["prop"] = 1e-4
    if interest_arm:
        fees["markup"] = rng.choice([0.05, 0.2])
    env = {
        "contracts": specs, "grid": [core.iso(g) for g in grid], "grid_input": list(range(n)), "events": events,
        "latency_us": lat_us, "delay": 0, "reward": rng.choice(gen_epi.REWARDS), "fees": fees, "cash": cash,
        "space": {"type": "box", "low": -5.0, "high": 5.0, "as_weights": True, "fractional": True, "margin": 0.0},
        "folds": None, "markov": False, "warmup_s": None, "episode_length": None, "sampling_span": None,
        "ts_type": "datetime", "state": {"type": "rec", "feature": rng.random() < 0.3, "k": 2},
    }
    wipeout = False
    if (not exact) and (not band) and (not interest_arm) and (not notify_arm) and (not recovery) and phase == "nonlatent" and w > 1 and rng.random() < 0.25:
        # the asset is wiped out: after the shock it is quoted at exactly 0.0 (a legal quote), and the quotes are
        # handed over as a table of prices (Transmitter.add_prices)
        wipeout = True
        for e in env["events"]:
            if e["type"] == "nbbo" and e["c"] == 0 and abs((e["bid"] + e["ask"]) / 2 - p) > 1e-9 * p:
                e["bid"] = e["ask"] = 0.0
        gen_epi.route_quotes_via_add_prices(rng, env, spread)
    elif (not exact) and rng.random() < 0.15:
        gen_epi.route_quotes_via_add_prices(rng, env, spread)
    if rng.random() < 0.15 and not wipeout:
        env["delay"] = 1        # (not with a wipe-out: a solvent, still uninvested account would be asked to buy at a price of zero)
    if rng.random() < 0.15:
        # fault: user code that handles the end-of-episode notification fails (e.g. it values a broke account)
        env["state"]["crash_on"] = ["EventDone"]
    own_step = rng.randint(0, n - 3) if phase == "own_costs" else None
    liquidate_when_broke = phase == "latent" and rng.random() < 0.5
    script = [{"op": "reset", "env": 0, "fold": None, "np_seed": rng.randrange(2 ** 31)}]
    nsteps = n - 1 + rng.randint(0, 3)       # includes a tail of calls after the end
    for k in range(nsteps):
        a = [w] + ([rng.choice([0.0, 0.2])] if two else [])
        if phase == "own_costs":
            a = [0.0] * len(a) if k < own_step else [max(-5.0, min(5.0, w * (1.0 + 0.1 * k)))] + a[1:]
        elif liquidate_when_broke and k >= kshock - 1:
            a = [0.0] * len(a)            # the decision arriving at a broke account asks to liquidate everything
        script.append({"op": "step", "env": 0, "action": a})
    if notify_arm:
        # the adverse quote does not come from the transmitter: it is pushed into the environment between two steps,
        # stamped with the same timestamp as the last quote seen (a one-second feed)
        pos = [j for j, op in enumerate(script) if op["op"] == "step"][min(kshock, nsteps - 1)]
        pf_ = p * f
        script.insert(pos, {"op": "notify_quote", "env": 0, "c": 0, "bid": pf_ * (1 - spread / 2), "ask": pf_ * (1 + spread / 2), "older": older_stamp})
    first_steps = [dict(op) for op in script if op["op"] in ("step", "notify_quote")]
    script.append({"op": "reset", "env": 0, "fold": None, "np_seed": rng.randrange(2 ** 31)})
    replay = rng.random() < 0.3
    if replay:
        # the same episode once more on the same environment: the ruin must be noticed again, at the same point
        script += first_steps
    else:
        for k in range(rng.randint(1, 2)):
            script.append({"op": "step", "env": 0, "action": [0.0] * (2 if two else 1)})
    return {"kind": "epi", "envs": [env], "clock0": "1999-01-01T00:00:00", "script": script, "prng": rng.randrange(2 ** 31),
            "meta": {"phase": phase, "w": w, "f": f, "kshock": kshock, "exact": exact, "recovery": recovery, "band": band, "replay": replay, "interest_arm": interest_arm, "wipeout": wipeout, "notify_arm": notify_arm}}


def execute(scenario):
    sim = epi.run_scenario(scenario)
    env_spec = scenario["envs"][0]
    _v, probes, _violate, probe = epicheck.mk_violation_sink()
    violations = []

    def violate(clause, msg, op=None, **sig):
        # several clauses are judged per run; a violation of the (known-open) 'ruin step
        # returns done' clause must not hide a different one that follows it
        if len(violations) < 6:
            violations.append({"clause": clause, "sig": sig, "op": op, "msg": msg})
    h = sim.handles[0]
    recs = [r for r in sim.sink.records if r.get("env") == 0]
    meta = scenario.get("meta", {})
    if meta.get("neighbour"):
        probe("neighbour_environment_through_the_same_shock")
    ruin_seen = False
    shapes = []
    for ei, ep in enumerate(h.episodes):
        if ep["failed"]:
            violate("unexpected_exception", "reset raised {}: {}".format(ep["reset"]["exc"], ep["reset"].get("msg")), exc=ep["reset"]["exc"], where="reset")
            break
        ledger = epicheck.ReplayLedger(h)
        ended = bool(ep["reset"].get("done"))
        ended_how = "reset" if ended else None
        tol = ledger.tol()
        # quotes as the scenario says they were delivered (the delivery model), not as the library's books show them:
        # a quote that was lost on the way must not hide an insolvency
        spec_g = h.gen_specs[ep.get("gen", 0)]
        dmodel = Delivery(spec_g, gen_epi.auto_disc(spec_g))
        steps_model = epicheck.visited_steps(dmodel, spec_g, ep)

        def model_books(lib_books, k_, at_end):
            if steps_model is None or k_ is None or k_ >= len(steps_model) - 1:
                return lib_books
            out = dict(lib_books)
            for sym, b in epicheck.expected_books(dmodel, h, steps_model, k_, at_step_end=at_end).items():
                if sym != "__rate__":
                    out[sym] = b
            if not at_end:
                # quotes pushed with notify() since the previous step ended are the latest ones at this execution
                st_ = ep["steps"][k_]
                prev_end = ep["steps"][k_ - 1]["end_seq"] if k_ > 0 else ep["reset"]["end_seq"]
                for nr in recs:
                    if nr["kind"] == "notify" and prev_end < nr["seq"] < st_["seq"]:
                        out[nr["sym"]] = (nr["bid"], nr["ask"])
                        probe("quote_pushed_between_steps")
            return out

        for st in ep["steps"]:
            k = st["k"]
            ex = [r for r in recs if r["kind"] == "EXEC" and st["seq"] < r["seq"] < st["end_seq"]]
            if not st["done_before"] and st.get("exc") in (None, "EndOfEpisodeError"):
                for r in ex:
                    r["books"] = model_books(r["books"], k, False)
                if st.get("books"):
                    st["books"] = model_books(st["books"], k, True)
            if ended:
                # (c) every further step is refused until reset
                probe("steps_attempted_after_end")
                if st.get("exc") != "EndOfEpisodeError" or ex or st["n_rec"] != st["n_rec_before"] or noncash(st["hold"]) != noncash(st["hold_before"]):
                    violate("step_after_end_not_refused", "step {} after the episode ended ({}) was not refused: exc={} executions={} holdings {} -> {}".format(
                        k, ended_how, st.get("exc"), len(ex), st["hold_before"], st["hold"]), op=k, how=ended_how,
                        traded=bool(noncash(st["hold"]) != noncash(st["hold_before"])))
                    break
                continue
            nlv_end = st["nlv"]
            phase = None
            traded_while_broke = False
            for r in ex:
                reb = r["rebalancing"]
                if reb["interest"]:
                    ledger.interest += F(reb["interest"])
                nlv_dec = ledger.nlv(r["books"])
                tol = ledger.tol()
                changed = noncash(r.get("hold_after")) != noncash(r["hold_before"]) or r.get("n_rec_after") != r["n_rec_before"]
                if nlv_dec is not None and float(nlv_dec) <= -tol:
                    phase = "arrival"
                    if changed:
                        traded_while_broke = True
                        violate("traded_while_broke", "step {}: NLV at decision time is {} <= 0 but holdings changed {} -> {} (entries {} -> {})".format(
                            k, float(nlv_dec), r["hold_before"], r.get("hold_after"), r["n_rec_before"], r.get("n_rec_after")), op=k, kind="arrival")
                        break
                elif nlv_dec is not None and abs(float(nlv_dec)) <= tol:
                    phase = "arrival"     # exactly zero (up to rounding): must not trade either, but rounding decides - not judged
                    if not changed:
                        probe("ruin_exactly_zero")
                for tr in reb["trades"]:
                    ledger.apply(tr)
                if phase is None and reb["trades"]:
                    post = ledger.nlv(r["books"])
                    if post is not None and float(post) <= tol:
                        phase = "own_costs"
            if any(v["clause"] != "ruin_step_returns_done" for v in violations):
                break
            # the number the solvency test reads is itself checked: cash + positions at the liquidation side of
            # the book at the end of the step, from the recorded trades only
            ind_end = ledger.nlv(st["books"]) if st.get("books") else None
            if ind_end is not None and not isinstance(nlv_end, str) and nlv_end is not None:
                tol = ledger.tol()
                if abs(float(ind_end) - nlv_end) > 10 * tol:
                    violate("valuation_signal", "step {}: the account reports NLV {} but cash + positions at the liquidation side of the quotes are worth {}".format(
                        k, nlv_end, float(ind_end)), op=k, kind="nlv_mismatch")
                    break
                if meta.get("band") and float(ind_end) <= 0:
                    probe("ruin_inside_spread_band")
            broke_end = (not isinstance(nlv_end, str)) and nlv_end <= 0
            if phase is None and broke_end:
                phase = "post_trade"
            # (b) valuation signals end-of-episode iff NLV <= 0
            nd = st.get("nlv_default")
            if not isinstance(nlv_end, str) and nd is not None:
                if nlv_end <= 0 and not (nd[0] == "raised" and nd[1] == "EndOfEpisodeError"):
                    violate("valuation_signal", "NLV is {} <= 0 but net_liquidation_value() gave {}".format(nlv_end, nd), op=k, kind="no_raise")
                    break
                if nlv_end > 0 and nd[0] != "value":
                    violate("valuation_signal", "NLV is {} > 0 but net_liquidation_value() raised {}".format(nlv_end, nd[1]), op=k, kind="spurious_raise")
                    break
                if nd[0] == "value" and nd[1] != nlv_end:
                    violate("valuation_signal", "net_liquidation_value() {} != net_liquidation_value(raise_if_broke=False) {}".format(nd[1], nlv_end), op=k, kind="mismatch")
                    break
            if phase is not None and meta.get("interest_arm") and any(F(r["rebalancing"]["interest"] or 0) < 0 for r in ex):
                probe("insolvent_only_after_interest_is_charged")
            if phase is not None and meta.get("wipeout"):
                probe("ruin_by_a_quote_of_exactly_zero")
            if phase is not None:
                ruin_seen = True
                probe({"arrival": "ruin_on_arrival", "post_trade": "ruin_post_trade", "own_costs": "ruin_by_own_costs"}[phase])
                if k == 0:
                    probe("ruin_on_first_step")
                if broke_end and not isinstance(nlv_end, str) and nlv_end == 0:
                    probe("ruin_exactly_zero")
                if st.get("exc") == "InjectedCrash":
                    # the step got as far as the end-of-episode notification and the injected failure of its handler
                    # escaped: the episode must be closed (the notification is only sent for an ended episode)
                    probe("end_of_episode_handler_failed")
                    if not st.get("env_done"):
                        violate("episode_left_open", "step {}: the end-of-episode notification was sent at the ruin ({}) but the episode is not marked as ended".format(k, phase),
                                op=k, kind="handler_failed_at_ruin")
                        break
                    ended, ended_how = True, "ruin_handler_failed"
                    continue
                # (d) the ruin step reports done to the caller rather than failing
                if st.get("exc") is not None:
                    chain = st.get("chain") or []
                    site = "rewards.py:calculate" if "rewards.py:calculate" in chain else st.get("site")
                    violate("ruin_step_returns_done", "step {} during which the account became insolvent ({}; NLV {}) raised {} from {} instead of returning done=True".format(
                        k, phase, nlv_end, st["exc"], site), op=k, phase=phase, escaped=st["exc"], raised_in=site)
                    # keep checking the tail: treat as ended (the exception is the end-of-episode signal)
                    ended, ended_how = True, "raised_at_ruin"
                    if not st.get("env_done"):
                        violate("ruin_not_marked_done", "step {} raised {} at the moment of ruin ({}) but the episode is not marked as ended".format(
                            k, st["exc"], phase), op=k, phase=phase)
                        break
                    continue
                if st.get("done") is not True:
                    violate("ruin_step_returns_done", "step {} during which the account became insolvent ({}) returned done={}".format(k, phase, st.get("done")),
                            op=k, phase=phase, escaped="none", raised_in="returned_not_done")
                    break
                ended, ended_how = True, "done_at_ruin"
                continue
            if st.get("exc") == "InjectedCrash":
                # the injected failure of the end-of-episode handler: the notification is only ever sent for an
                # episode that has ended, so the episode must be closed whatever the handler did
                probe("end_of_episode_handler_failed")
                if not st.get("env_done"):
                    violate("episode_left_open", "step {}: the end-of-episode notification was sent (its handler failed) but the episode is not marked as ended".format(k), op=k, kind="handler_failed")
                    break
                ended, ended_how = True, "data_end_handler_failed"
                continue
            if st.get("exc") is not None:
                violate("unexpected_exception", "step {} raised {}: {} [{}] while the account is solvent (NLV {})".format(
                    k, st["exc"], st.get("msg"), st.get("site"), nlv_end), op=k, exc=st["exc"], where="step", site=st.get("site"))
                break
            if st.get("done"):
                ended, ended_how = True, "data_end"
        shapes.append("{}{}".format(len(ep["steps"]), ended_how[0] if ended_how else "-"))
        if ei > 0 and meta.get("replay") and len(h.episodes) >= 2:
            probe("ruin_episode_replayed")
            e0 = h.episodes[0]
            def step_sig(st):
                return (st.get("exc"), st.get("done"), bool(st["done_before"]), sorted(noncash(st.get("hold")).items()),
                        st.get("n_rec", 0) - st.get("n_rec_before", 0), st.get("nlv"))
            sig0 = [step_sig(st) for st in e0["steps"]]
            sig1 = [step_sig(st) for st in ep["steps"]]
            if sig0 != sig1 and not violations:
                violate("replayed_episode_differs", "the same episode played again after reset() ends differently: first {} / second {}".format(sig0, sig1), kind="replay")
        if ei > 0 and not violations and ep["steps"] and all(s.get("exc") is None for s in ep["steps"] if not s["done_before"]):
            probe("reset_after_ruin_works")
        # violations of clause (d) that are open known findings must not stop the remaining clauses:
        # they were recorded first; keep scanning only if nothing else is wrong
        if any(v["clause"] != "ruin_step_returns_done" for v in violations):
            break
    # a known-finding violation was kept in violations[0]; later clauses may have replaced nothing
    if meta.get("recovery") and ruin_seen:
        probe("recovery_after_ruin")
    if meta.get("phase") == "own_costs":
        sim.fault("fee_shock")
    else:
        sim.fault("price_shock_" + str(meta.get("phase")))
    kinds = env_spec["contracts"][0]["kind"]
    trace = "{}|{}|w{}|k{}|{}|rec{}|x{}|{}|l{}".format(meta.get("phase"), kinds, meta.get("w"), meta.get("kshock"),
                                                      (env_spec.get("reward") or {}).get("cls"), int(bool(meta.get("recovery"))),
                                                      int(bool(meta.get("exact"))), "".join(shapes), 0 if not env_spec["latency_us"] else 1)
    violations.sort(key=lambda v: v["clause"] == "ruin_step_returns_done")
    return {"violations": violations, "digest": core.digest(sim.log_for_digest()), "probes": probes, "faults": sim.faults,
            "stats": sim.stats, "trace": trace, "nontrivial": ruin_seen and len(probes) >= 1}


def noncash(hold):
    """Positions without the base currency (cash moves by margin sweeps when the account is merely valued)."""
    return {k: v for k, v in (hold or {}).items() if k != "USD"}


def describe(scenario):
    d = gen_epi.describe(scenario)
    d["meta"] = scenario.get("meta")
    return d


def shrink_paths(scenario):
    return [("script",)]


generate = gen_epi.with_backtest_driver(generate, 0.2)
_generate_single = generate


def generate(rng, i):
    sc = _generate_single(rng, i)
    if i % 6 == 1 and sc.get("driver") != "backtest" and len(sc.get("envs", [])) == 1:
        # a neighbour: a second environment of the same configuration (its own transmitter, exchange and account) lives
        # in the process and makes every call right before the judged one does - it holds the same contracts through the
        # same shock.  What it does and suffers is not judged; the judged environment must behave as if it were alone
        import copy
        sc["envs"].append(copy.deepcopy(sc["envs"][0]))
        script = []
        for op in sc["script"]:
            if op.get("env", 0) == 0 and op["op"] in ("reset", "step", "notify_quote"):
                script.append(dict(copy.deepcopy(op), env=1))
            script.append(op)
        sc["script"] = script
        sc["meta"]["neighbour"] = True
    return sc
