"""Environment-level clause of C12: the threshold / whole-lot filter as configured on
a portfolio space (weights or number-of-contract mode) is applied by the step that
executes a decision."""
from fractions import Fraction as F

from tesim import core, epi, gen_epi, epicheck

EPI_PROFILE = {
    "n_min": 3, "n_max": 9, "c_min": 1, "c_max": 3, "p_bar": 1.0, "extras_max": 3, "extra_kinds": ["nbbo", "custom"],
    "p_sparse_grid": 0.0, "p_folds": 0.0, "p_markov": 0.0, "p_warmup": 0.0, "delays": [0, 0, 1],
    "contract_kinds": ["ETF", "spot", "margined"], "p_with_cash": 0.2, "p_rate": 0.0, "spaces": ["box"],
    "box_bounds": [(-1.0, 1.5)], "latencies": [0], "fixed_fees": [0], "spreads": [0, 0.01], "margins": [0.02, 0.05, 0.125],
    "vol": 0.01,
}


def generate(rng, i):
    env = gen_epi.gen_env(rng, EPI_PROFILE)
    sp = env["space"]
    n = len(env["contracts"]) + (1 if sp.get("with_cash") else 0)
    nr_mode = rng.random() < 0.5
    whole = rng.random() < 0.3
    env["cash"] = 1e6
    if nr_mode:
        sp["as_weights"] = False
        sp["low"], sp["high"] = -1e12, 1e12
    if whole:
        sp["fractional"] = False
    script = gen_epi.full_episode_script(rng, env)
    # targets that move by small steps around the threshold: some imbalances below it, some above
    prices = {}
    for e in env["events"]:
        if e["type"] == "nbbo" and e["c"] not in prices:
            prices[e["c"]] = (e["bid"] + e["ask"]) / 2
    base = [rng.choice([0.2, 0.3, -0.2]) for _ in range(n)]
    for op in script:
        if op["op"] != "step":
            continue
        a = []
        for j in range(n):
            base[j] += rng.choice([0, 0, 0.01, -0.01, 0.03, -0.03, 0.08, -0.08, 0.2])
            base[j] = max(-0.9, min(1.2, base[j]))
            a.append(round(base[j], 4))
        if nr_mode:
            cash_pos = sp.get("cash_pos", 0) if sp.get("with_cash") else None
            b = []
            for j in range(n):
                cj = j if cash_pos is None else (j - 1 if j > cash_pos else (None if j == cash_pos else j))
                mult = 1.0
                if cj is not None and cj < len(env["contracts"]):
                    from tesim.world import contract_params
                    mult = contract_params(env["contracts"][cj])[0]
                    px = prices.get(cj, 100.0)
                else:
                    px = 100.0
                b.append(round(a[j] * env["cash"] / (px * mult), 3))
            a = b
        op["action"] = a
    return {"kind": "epi", "envs": [env], "clock0": "1999-01-01T00:00:00", "script": script, "prng": rng.randrange(2 ** 31)}


def execute(scenario):
    sim = epi.run_scenario(scenario)
    env_spec = scenario["envs"][0]
    violations, probes, violate, probe = epicheck.mk_violation_sink()
    h = sim.handles[0]
    sp = env_spec["space"]
    thr = F(sp.get("margin", 0.0))
    delay = env_spec.get("delay", 0)
    fractional = sp.get("fractional", True)
    led = epicheck.ReplayLedger(h)
    trades = 0
    from tesim.props.c08 import uncanon
    for ep in h.episodes:
        if ep["failed"]:
            break
        acts = [st["action"] for st in ep["steps"]]
        for st in ep["steps"]:
            if st["done_before"]:
                break
            k = st["k"]
            if st.get("exc") == "EndOfEpisodeError":
                break       # the account was ruined (C09's business): nothing further to judge here
            if st.get("exc") is not None:
                violate("unexpected_exception", "step {} raised {}: {} [{}]".format(k, st["exc"], st.get("msg"), st.get("site")), op=k,
                        exc=st["exc"], where="step", site=st.get("site"), fractional=fractional)
                break
            ex = [r for r in sim.sink.records if r["kind"] == "EXEC" and st["seq"] < r["seq"] < st["end_seq"]]
            if len(ex) != 1 or ex[0]["rebalancing"]["post"] is None:
                continue
            r = ex[0]
            reb = r["rebalancing"]
            src = k - delay
            want = epicheck.allocation_of_action(h, uncanon(acts[src])) if src >= 0 else epicheck.null_allocation(h)
            got = {t["sym"]: t["q"] for t in reb["trades"]}
            trades += len(got)
            nlv = F(reb["pre"]["nlv"])
            for sym, (mult, cashreq, mreq) in led.params.items():
                pos = F(r["hold_before"].get(sym, 0.0))
                w = want.get(sym, 0.0)
                bid, ask = r["books"].get(sym, (None, None))
                if w == 0 and pos == 0:
                    if sym in got:
                        violate("filter_emission", "step {}: unexpected trade of {} {}".format(k, got[sym], sym), op=k, kind="unexpected_trade")
                    continue
                if sp.get("as_weights", True):
                    target = F(w) * nlv / F(ask if w > 0 else bid) / mult if w != 0 else F(0)
                else:
                    target = F(w)
                imb = target - pos
                zone = F(1, 10 ** 9) * max(1, abs(imb), abs(target), abs(pos))
                if abs(imb) <= zone:
                    continue
                if not fractional:
                    qty = F(int(imb))
                    frac = abs(imb - round(imb))
                    if frac <= zone or abs(abs(imb) - abs(int(imb))) <= zone:
                        continue
                    if qty == 0:
                        probe("env_sublot_skip")
                        if sym in got:
                            violate("filter_emission", "step {}: sub-lot imbalance {} of {} was traded ({})".format(k, float(imb), sym, got[sym]), op=k, kind="sublot_emitted")
                        continue
                else:
                    qty = imb
                iw = mult * imb * F(ask if imb > 0 else bid) / nlv
                if abs(abs(iw) - thr) <= F(1, 10 ** 9) * max(1, thr):
                    continue
                liquidation = (w == 0)
                emit = liquidation or abs(iw) >= thr
                if emit != (sym in got):
                    kind = "liquidation_skipped" if liquidation else ("emitted_below_threshold" if sym in got else "skipped_at_or_above_threshold")
                    violate("filter_emission", "step {}: {}: imbalance weight {} threshold {} target {} ({}): expected emit={} got {}".format(
                        k, sym, float(iw), float(thr), w, "weights" if sp.get("as_weights", True) else "contracts", emit, sym in got), op=k, kind=kind)
                    break
                if not emit:
                    probe("env_below_threshold_skip")
                else:
                    probe("env_at_or_above_threshold_emit")
                    q = got[sym]
                    if not fractional and (q != int(q) or F(q) != qty):
                        violate("filter_quantity", "step {}: whole-lot trade of {} is {} expected trunc({}) = {}".format(k, sym, q, float(imb), float(qty)), op=k, kind="truncation")
                        break
            if violations:
                break
        if violations:
            break
    trace = "epi|w{}f{}|thr{}|d{}|{}".format(int(sp.get("as_weights", True)), int(fractional), float(thr), delay, "".join(c["kind"][0] for c in env_spec["contracts"]))
    sim.stats["trades"] = trades
    sim.stats["rebalances"] = sum(1 for r in sim.sink.records if r["kind"] == "EXEC")
    return {"violations": violations, "digest": core.digest(sim.log_for_digest()), "probes": probes, "faults": sim.faults,
            "stats": sim.stats, "trace": trace, "nontrivial": trades >= 1 and len(probes) >= 1}


generate = gen_epi.with_backtest_driver(generate, 0.2)
