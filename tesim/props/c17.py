"""C17 - only in-space actions are executed, as the allocation they denote."""
import copy
import numpy as np

from tesim import core, epi, gen_epi, epicheck
from tesim.epimodel import Delivery

PROP = "C17"
PLAN = {"quick": 5000, "thorough": 250000}
TIMEOUT = 30
CHUNK = 100
BAD_BOX = ["nan", "inf", "neginf", "short", "long", "matrix", "above", "below", "none", "string"]
BAD_DISCRETE = ["index_high", "index_neg", "index_float", "index_nan", "index_array", "none", "string"]
RULE = ("seeded episodes over continuous (bounds incl. negative and >1, with/without the cash contract in the list, weights or "
        "number-of-contract mode, thresholds, whole lots) and discrete (random allocation tables) portfolio spaces; in-space "
        "actions are submitted as float64 arrays, float32 arrays, lists and exactly-on-the-bound vectors; a malformed action "
        "(NaN, +-inf, wrong shape, out of bounds by 0.5 or by one ulp, bad / negative / float / NaN / array index, None, string) "
        "is injected at a random step with delays 0-3. Checked per step: an in-space action's track-record entry carries the "
        "allocation it denotes (cash and zero entries dropped), frictionless runs end with weights equal to the action and the "
        "residual in cash; a malformed action makes step() raise no later than the step at which it is due, never shows up in "
        "an allocation before, and the raising step leaves positions and the track record untouched. Non-trivial: >=1 executed "
        "in-space action and >=1 probe; distinct = (space kind and options, delay, malformed kind, step of injection, action "
        "container kinds)")
ASSUMPTIONS = [
    "after step() has raised on a malformed action the episode is abandoned (the statement does not say the episode can continue); the next reset() must work",
    "float32 actions denote the float32 values they contain",
]
COMPONENTS = {"real": ["BoxPortfolio", "DiscretePortfolio", "PortfolioSpace.make_rebalancing_request", "TradingEnv.step", "Rebalancing", "_Allocation", "Broker"],
              "harness": ["malformed-action catalogue", "delivery model"], "stub": []}
PROBE_FLOORS = {"malformed_nan": 11, "malformed_shape": 34, "malformed_bound_ulp": 12, "malformed_bad_index": 40,
                "malformed_deep_in_queue_episode_ends_first": 10, "in_space_on_bound": 50, "list_action": 116, "float32_action": 125,
                "cash_entry_ignored": 200, "discrete_nr_contracts_mode": 30, "frictionless_weights_checked": 200, "malformed_rejected_when_due": 177, "xy_allocation_checked": 500, "xy_delay_zero": 200, "xy_bounds_exclude_zero": 100, "xy_malformed_rejected": 30, "chain_action_resolved_by_model": 3000, "chain_with_month_offset": 1000}

PROFILE = {
    "n_min": 3, "n_max": 10, "n_long": 20, "p_long": 0.05, "c_min": 1, "c_max": 3, "p_bar": 1.0, "extras_max": 4,
    "extra_kinds": ["nbbo", "custom"], "p_sparse_grid": 0.0, "p_folds": 0.0, "p_markov": 0.0, "p_warmup": 0.0,
    "delays": [0, 0, 1, 2, 3], "contract_kinds": ["ETF", "spot", "margined"], "p_with_cash": 0.4,
    "box_bounds": [(-1.0, 1.0), (0.0, 1.0), (-0.5, 1.5), (-2.0, 2.0)], "margins": [0.0, 0.0, 0.02, 0.05, 0.125],
    "latencies": [0, 0, 10 ** 6],
}


def generate_chain(rng, i):
    """A futures-chain world (C11's generator: month offsets, rolls): the allocation an action denotes is the
    contract the chain stands for at execution time."""
    from tesim.props import c11
    for _ in range(6):
        sc = c11.generate_single(rng, i)
        if not sc.get("construct_only"):
            sc["chain_world"] = True
            sc["frictionless"] = False
            return sc
    return None


def generate(rng, i):
    if i % 10 == 9:
        return generate_xy(rng, i)
    if i % 10 == 8:
        sc = generate_chain(rng, i)
        if sc is not None:
            return sc
    env = gen_epi.gen_env(rng, PROFILE)
    sp = env["space"]
    frictionless = rng.random() < 0.4
    if frictionless:
        env["fees"] = {"fixed": 0, "prop": 0, "markup": 0.0}
        for e in env["events"]:
            if e["type"] == "nbbo":
                m = (e["bid"] + e["ask"]) / 2
                e["bid"] = e["ask"] = m
        if sp["type"] == "box":
            sp["margin"] = 0.0
        env["latency_us"] = 0
        env["events"] = [e for e in env["events"] if e["type"] != "rate"]
    if sp["type"] == "box" and rng.random() < 0.2:
        sp["as_weights"] = False
        sp["low"], sp["high"] = -50.0, 50.0
        env["cash"] = 1e7          # contract counts of a few units must stay far from ruin
        if rng.random() < 0.4:
            sp["fractional"] = False
    elif sp["type"] == "box" and rng.random() < 0.15:
        sp["fractional"] = False       # weights, whole lots
        env["cash"] = 1e7
    if sp["type"] == "discrete" and rng.random() < 0.4:
        # discrete tables in number-of-contract mode and / or whole lots
        mode = rng.choice(["nr", "nr_whole", "weights_whole"])
        env["cash"] = 1e7
        if mode in ("nr", "nr_whole"):
            sp["as_weights"] = False
            sp["allocations"] = [[float(rng.choice([0, 1, 2, -1, 3, 0.5, 7.5])) for _ in row] for row in sp["allocations"]]
        if mode in ("nr_whole", "weights_whole"):
            sp["fractional"] = False
    n = len(env["contracts"]) + (1 if sp.get("with_cash") else 0)
    steps = gen_epi.episode_steps(env, None)
    nsteps = max(len(steps) - 1, 0)
    script = [{"op": "reset", "env": 0, "fold": None, "np_seed": rng.randrange(2 ** 31)}]
    inject_at = rng.randrange(nsteps) if nsteps and rng.random() < 0.75 else None
    prev_v = None
    for k in range(nsteps):
        if k == inject_at:
            if sp["type"] == "box":
                kind = rng.choice(BAD_BOX)
                a = {"bad": kind, "pos": rng.randrange(n), "ulp": rng.random() < 0.5}
            else:
                kind = rng.choice(BAD_DISCRETE)
                a = {"bad": kind, "by": rng.choice([0, 0, 1, 5])}
            script.append({"op": "step", "env": 0, "action": a})
            continue
        if sp["type"] == "discrete":
            idx = rng.randrange(len(sp["allocations"]))
            a = idx if rng.random() < 0.7 else {"as": "npint", "v": idx}
        else:
            if sp["as_weights"] and sp.get("margin") and prev_v is not None and rng.random() < 0.35:
                # the previous weights with one entry moved by a little more than the no-trade band
                v = list(prev_v)
                j = rng.randrange(n)
                v[j] = min(sp["high"], max(sp["low"], v[j] + rng.choice([1, -1]) * sp["margin"] * rng.uniform(1.05, 1.45)))
            elif sp["as_weights"]:
                v = gen_epi.gen_action(rng, env)
                if rng.random() < 0.1:
                    j = rng.randrange(n)
                    v = [0.0] * n
                    v[j] = sp["high"] if rng.random() < 0.5 and sp["high"] <= 1.0 else (sp["low"] if sp["low"] >= -1.0 else 0.0)
            else:
                v = [float(rng.choice([0, 1, 2, -1, 3, 0.5])) for _ in range(n)]
            prev_v = v
            r = rng.random()
            a = v if r < 0.4 else ({"as": "list", "v": v} if r < 0.6 else ({"as": "f32", "v": v} if r < 0.8 else {"as": "f64", "v": v}))
        script.append({"op": "step", "env": 0, "action": a})
    script.append({"op": "reset", "env": 0, "fold": None, "np_seed": rng.randrange(2 ** 31)})
    null = 0 if sp["type"] == "discrete" else [0.0] * n
    script.append({"op": "step", "env": 0, "action": null})
    if i % 7 == 3 and sp["type"] == "box" and sp["as_weights"]:
        # declared bounds that exclude zero (a minimum holding per asset, or a short-only space): entries between zero
        # and the bound are outside the space.  No delay here (the padding null action would itself be outside it).
        # Decided by the run index, and every in-space vector is clipped into the new bounds
        sp["low"], sp["high"] = [(0.25, 0.625), (-0.75, -0.125)][(i // 7) % 2]
        env["delay"] = 0
        env["cash"] = max(env.get("cash") or 0, 1e6)
        for op in script:
            a = op.get("action")
            vec = a["v"] if isinstance(a, dict) and "v" in a else a
            if op["op"] == "step" and isinstance(vec, list):
                vec[:] = [min(sp["high"], max(sp["low"], x)) for x in vec]
    return {"kind": "epi", "envs": [env], "clock0": "1999-01-01T00:00:00", "script": script, "prng": rng.randrange(2 ** 31),
            "frictionless": frictionless}


def generate_xy(rng, i):
    """The tabular environment (TradingEnvXY) configured with delays 0..3: the same denotation and due-step
    rules hold there (its constructor forwards the delay and builds the continuous space itself)."""
    from tesim import xy
    tb = xy.gen_tables(rng, {"n_min": 40, "n_max": 80, "freqs": ["D"]})
    ny = len(tb["ycols"])
    for r, row in enumerate(tb["Y"]):           # every asset quoted on every date: any in-space action can be executed
        for j, v in enumerate(row):
            if v != v:
                row[j] = tb["Y"][r - 1][j] if r > 0 else 100.0
    kw = {"window": rng.choice([1, 2, 3]), "stride": None, "spread": rng.choice([0, 0.001]), "transformer": None, "clip": 5.0,
          "steps_delay": rng.choice([0, 0, 1, 2, 3]), "margin": 0.0, "calendar": "24/7", "latency": 0}
    acts = []
    for k in range(12):
        a = [round(rng.uniform(-0.3, 0.3), 4) for _ in range(ny)]
        a[0] = round(0.01 * (k + 1), 4)            # distinct actions: an executed allocation identifies its submission
        acts.append(a)
    bad_at = rng.randint(0, 8) if rng.random() < 0.5 else None
    sc = {"kind": "xy", "tables": tb, "kwargs": kw, "fold": None, "actions": acts, "bad_at": bad_at, "np_seed": rng.randrange(2 ** 31)}
    if i % 3 == 0:
        # declared exposure limits that exclude zero (a minimum weight per asset: max_short > 0), no delay (the padding
        # null action would itself be outside); the malformed action lies between zero and the declared floor
        kw["max_short"], kw["max_long"], kw["steps_delay"] = 0.125, 0.625, 0
        for k, a in enumerate(acts):
            acts[k] = [round(0.125 + abs(x) % 0.25, 4) for x in a]
            acts[k][0] = round(0.13 + 0.01 * k, 4)
        sc["bad_value"] = rng.choice([0.0, 0.0625, -0.2])
        sc["bounds_exclude_zero"] = True
    return sc


def execute_xy(scenario):
    from tesim import xy
    import warnings
    violations, probes, violate, probe = epicheck.mk_violation_sink()
    kw = scenario["kwargs"]
    d = kw["steps_delay"]
    acts = scenario["actions"]
    bad_at = scenario.get("bad_at")
    log = []
    executed = 0
    with core.sim_context():
        try:
            env, X0, Y0, rate0 = xy.make_env(scenario)
        except Exception as e:
            return {"violations": [], "digest": core.digest(["build", core.exc_name(e)]), "probes": {"build_refused": 1}, "faults": {},
                    "stats": {"ops": 1}, "trace": "xy-refused", "nontrivial": False}
        ycols = [str(c.symbol) for c in env.Y.columns]
        np.random.seed(scenario.get("np_seed", 0) % (2 ** 32))
        with warnings.catch_warnings():
            warnings.simplefilter("ignore")
            try:
                env.reset()
            except Exception as e:
                return {"violations": [], "digest": core.digest(["reset", core.exc_name(e)]), "probes": {"reset_refused": 1}, "faults": {},
                        "stats": {"ops": 1}, "trace": "xy-reset-refused", "nontrivial": False}
            done = bool(getattr(env, "_done", False))
            k = 0
            pending_bad = None
            while not done and k < len(acts):
                a = np.array(acts[k], dtype=float)
                if bad_at is not None and k == bad_at:
                    a = a.copy()
                    a[0] = scenario.get("bad_value", 7.5)      # outside the space's bounds ([-1, 1] unless declared otherwise)
                    pending_bad = k
                n_before = len(env.broker.track_record)
                hold_before = {str(getattr(c, "symbol", c)): float(q) for c, q in env.broker.holdings_quantity.items() if q != 0 and type(c).__name__ != "Cash"}
                try:
                    obs, reward, done, info = env.step(a)
                    exc = None
                except Exception as e:
                    exc = core.exc_name(e)
                tr = env.broker.track_record
                hold = {str(getattr(c, "symbol", c)): float(q) for c, q in env.broker.holdings_quantity.items() if q != 0 and type(c).__name__ != "Cash"}
                log.append([k, exc, len(tr)])
                due = k - d
                if exc is not None:
                    if pending_bad is None or k > pending_bad + d or exc == "EndOfEpisodeError":
                        violate("unexpected_exception", "tabular environment (delay {}): step {} raised {} although every action due so far is in the space".format(d, k, exc),
                                op=k, exc=exc, where="step", site="xy")
                    else:
                        if len(tr) != n_before or hold != hold_before:
                            violate("rejection_not_clean", "tabular environment: step {} rejected a malformed action but the account changed".format(k), op=k, bad="above")
                        probe("xy_malformed_rejected")
                    break
                if pending_bad is not None and due >= pending_bad:
                    violate("malformed_not_rejected", "tabular environment (delay {}): the out-of-bounds action submitted at step {} was due at step {} but step() returned".format(
                        d, pending_bad, pending_bad + d), op=k, bad="above", delay=d)
                    break
                if len(tr) != n_before + 1:
                    violate("one_execution_per_step", "tabular environment: step {} added {} track-record entries".format(k, len(tr) - n_before), op=k, kind="entries")
                    break
                got = {str(c.symbol): float(v) for c, v in tr[-1].allocation.items() if float(v) != 0}
                want = {} if due < 0 else {ycols[j]: float(acts[due][j]) for j in range(len(ycols)) if float(acts[due][j]) != 0}
                if got != want:
                    violate("allocation_not_action", "tabular environment (delay {}): step {} executed allocation {} but the action due (submitted at step {}) denotes {}".format(
                        d, k, got, due if due >= 0 else "<none>", want), op=k, space="xy", cash=False)
                    break
                executed += 1
                probe("xy_allocation_checked")
                if d == 0:
                    probe("xy_delay_zero")
                if scenario.get("bounds_exclude_zero"):
                    probe("xy_bounds_exclude_zero")
                k += 1
    return {"violations": violations, "digest": core.digest(log), "probes": probes, "faults": {"malformed_action": 1} if bad_at is not None else {},
            "stats": {"ops": len(log), "steps": len(log)}, "trace": "xy|d{}|b{}|n{}".format(d, bad_at, executed), "nontrivial": executed >= 1}


def denoted(h, raw):
    """Allocation a scripted in-space action denotes."""
    a = raw
    if isinstance(a, dict) and "as" in a:
        v = a["v"]
        if a["as"] == "f32":
            v = [float(np.float32(x)) for x in v]
        a = v
    return epicheck.allocation_of_action(h, a)


def is_bad(raw):
    return isinstance(raw, dict) and "bad" in raw


def execute(scenario):
    if scenario.get("kind") == "xy":
        return execute_xy(scenario)
    sim = epi.run_scenario(scenario)
    env_spec = scenario["envs"][0]
    violations, probes, violate, probe = epicheck.mk_violation_sink()
    h = sim.handles[0]
    sp = env_spec["space"]
    delay = env_spec.get("delay", 0)
    recs = [r for r in sim.sink.records if r.get("env") == 0]
    # scripted actions per episode
    scripted = []
    cur = None
    for op in scenario["script"]:
        if op["op"] == "reset":
            cur = []
            scripted.append(cur)
        elif op["op"] == "step" and cur is not None:
            cur.append(op["action"])
    executed_ok = 0
    kinds = []
    bad_kind = None
    for ep, acts in zip(h.episodes, scripted):
        if ep["failed"]:
            violate("unexpected_exception", "reset raised {}: {}".format(ep["reset"]["exc"], ep["reset"].get("msg")), exc=ep["reset"]["exc"], where="reset")
            break
        pending_bad = None      # index of a submitted malformed action not yet rejected
        dead = False
        for k, st in enumerate(ep["steps"]):
            if dead or st["done_before"]:
                break
            raw = acts[k]
            if is_bad(raw) and pending_bad is None:
                pending_bad = k
                bad_kind = raw["bad"]
                sim.fault("malformed_action")
            ex = [r for r in recs if r["kind"] == "EXEC" and st["seq"] < r["seq"] < st["end_seq"]]
            due = k - delay
            if st.get("exc") is not None:
                # "rejected with an error no later than the step at which it is due": once a malformed action
                # is pending, an error at any step up to its due step is a rejection wherever it is raised
                if pending_bad is None or st["exc"] == "EndOfEpisodeError":
                    violate("unexpected_exception", "step {} raised {}: {} [{}] although every submitted action is in the space".format(
                        k, st["exc"], st.get("msg"), st.get("site")), op=k, exc=st["exc"], where="step", site=st.get("site"))
                    break
                # rejected (at or before the due step): nothing may have been executed
                if ex or st["n_rec"] != st["n_rec_before"] or noncash(st["hold"]) != noncash(st["hold_before"]):
                    violate("rejection_not_clean", "step {} raised {} on a malformed action ({}) but executions={} entries {} -> {} holdings {} -> {}".format(
                        k, st["exc"], bad_kind, len(ex), st["n_rec_before"], st["n_rec"], st["hold_before"], st["hold"]), op=k, bad=bad_kind)
                    break
                probe("malformed_rejected_when_due" if due == pending_bad else "malformed_rejected_early")
                probe({"nan": "malformed_nan", "short": "malformed_shape", "long": "malformed_shape", "matrix": "malformed_shape"}.get(bad_kind, "malformed_other"))
                if bad_kind in ("above", "below") and acts[pending_bad].get("ulp"):
                    probe("malformed_bound_ulp")
                if bad_kind.startswith("index"):
                    probe("malformed_bad_index")
                dead = True
                continue
            # the step returned
            if pending_bad is not None and due >= pending_bad:
                violate("malformed_not_rejected", "malformed action ({}) submitted at step {} was due at step {} (delay {}) but step() returned; executed allocation {}".format(
                    bad_kind, pending_bad, pending_bad + delay, delay, ex[0]["rebalancing"]["alloc"] if ex else None), op=k, bad=bad_kind, delay=delay)
                break
            if len(ex) != 1:
                violate("one_execution_per_step", "step {} executed {} rebalances".format(k, len(ex)), op=k, kind="count")
                break
            reb = ex[0]["rebalancing"]
            want = denoted(h, acts[due]) if due >= 0 else epicheck.null_allocation(h)
            if any(isinstance(key, tuple) for key in want):
                want = epicheck.resolve_allocation(h, want, ex[0]["env_now"])
                probe("chain_action_resolved_by_model")
                if env_spec["contracts"][0].get("month", 0) > 0:
                    probe("chain_with_month_offset")
            if reb["alloc"] != want:
                violate("allocation_not_action", "step {}: executed allocation {} but the due action {} denotes {}".format(
                    k, reb["alloc"], acts[due] if due >= 0 else "<null>", want), op=k, space=sp["type"], cash=bool(sp.get("with_cash")))
                break
            measure = "Weights" if sp.get("as_weights", True) else "NrContracts"
            if reb["measure"] != measure:
                violate("allocation_not_action", "step {}: allocation measured as {} expected {}".format(k, reb["measure"], measure), op=k, space=sp["type"], cash=False)
                break
            executed_ok += 1
            if due >= 0:
                rawd = acts[due]
                if isinstance(rawd, dict) and rawd.get("as") == "list":
                    probe("list_action")
                if isinstance(rawd, dict) and rawd.get("as") == "f32":
                    probe("float32_action")
                vec = rawd["v"] if isinstance(rawd, dict) and "v" in rawd else rawd
                if sp["type"] == "box" and isinstance(vec, list) and any(x in (sp["low"], sp["high"]) for x in vec):
                    probe("in_space_on_bound")
            if sp.get("with_cash"):
                probe("cash_entry_ignored")
            # frictionless: weights after execution equal the action, residual is cash
            if scenario.get("frictionless") and sp.get("as_weights", True) and reb["post"] is not None and sp.get("fractional", True):
                okw = True
                dust = set()
                for sym, w in want.items():
                    bid_, ask_ = ex[0]["books"].get(sym, (None, None))
                    px_ = ask_ if w > 0 else bid_
                    if px_ and reb["pre"] is not None and abs(w * reb["pre"]["nlv"] / (px_ * float(epicheck_params(h, sym)[0]))) < 1e-5:
                        dust.add(sym)
                        continue    # dust: positions below the broker's flattening epsilon (1e-7 contracts) are dropped
                    if abs(reb["post"]["w"].get(sym, 0.0) - w) > 1e-9 * max(1.0, abs(w)):
                        okw = False
                        violate("executed_weights", "step {}: after a frictionless execution the weight of {} is {} but the action says {}".format(
                            k, sym, reb["post"]["w"].get(sym, 0.0), w), op=k, kind="weights")
                        break
                for sym, w in reb["post"]["w"].items():
                    if sym not in want and sym != "USD" and abs(w) > 1e-9:
                        okw = False
                        violate("executed_weights", "step {}: {} holds weight {} but is not in the action's allocation".format(k, sym, w), op=k, kind="residual")
                        break
                if not okw:
                    break
                cash_w = reb["post"]["w"].get("USD", None)
                if cash_w is not None:
                    # fully-paid contracts consume cash; margined ones only post margin (reported separately)
                    # (a dust position is either kept or dropped by the broker: whatever it reports for it counts)
                    spot_w = sum((w if sym not in dust else reb["post"]["w"].get(sym, 0.0)) for sym, w in want.items() if float(epicheck_params(h, sym)[1]) == 1.0)
                    marg = sum(reb["post"]["margins"].get(sym, 0.0) for sym in want) / reb["post"]["nlv"]
                    if abs(cash_w - (1.0 - spot_w - marg)) > 1e-9 * 10:
                        violate("executed_weights", "step {}: cash weight {} but 1 - fully-paid weights {} - posted margins {} = {}".format(
                            k, cash_w, spot_w, marg, 1.0 - spot_w - marg), op=k, kind="cash_residual")
                        break
                probe("frictionless_weights_checked")
            if sp.get("as_weights", True) and not sp.get("fractional", True) and reb["post"] is not None and reb["pre"] is not None and not sp.get("margin"):
                # weights with whole lots: positions are integers and within one lot of the fractional target
                for sym, w in want.items():
                    q = reb["post"]["nr"].get(sym, 0.0)
                    bid, ask = ex[0]["books"][sym]
                    target = w * reb["pre"]["nlv"] / ((ask if w > 0 else bid) * float(epicheck_params(h, sym)[0]))
                    before = ex[0]["hold_before"].get(sym, 0.0)
                    if abs((q - before) - round(q - before)) > 1e-9 or abs(q - target) >= 1.0 + 1e-9:
                        violate("executed_weights", "step {}: whole-lot position of {} is {} (was {}) but weight {} needs {}".format(k, sym, q, before, w, target), op=k, kind="whole_lots")
                        break
                probe("whole_lot_weights_checked")
            if not sp.get("as_weights", True) and sp.get("fractional", True) and reb["post"] is not None and not sp.get("margin"):
                for sym, q in want.items():
                    if abs(reb["post"]["nr"].get(sym, 0.0) - q) > 1e-9 * max(1.0, abs(q)):
                        violate("executed_weights", "step {}: position of {} is {} but the action asks for {} contracts".format(k, sym, reb["post"]["nr"].get(sym, 0.0), q), op=k, kind="nr")
                        break
            if sp.get("margin") and sp.get("fractional", True) and reb["post"] is not None and reb["pre"] is not None and not violations:
                # a space with a no-trade band: an in-space action whose change in a contract is clearly outside the band
                # (weighed at the account's net liquidation value) is carried out - the position ends at the target
                from fractions import Fraction as F
                thr = F(sp["margin"])
                nlv = F(reb["pre"]["nlv"])
                for sym, w in want.items():
                    bid, ask = ex[0]["books"].get(sym, (None, None))
                    if w == 0 or bid is None or bid != bid or ask != ask or nlv <= 0:
                        continue
                    mult = F(float(epicheck_params(h, sym)[0]))
                    pos = F(ex[0]["hold_before"].get(sym, 0.0))
                    target = F(w) * nlv / F(ask if w > 0 else bid) / mult if sp.get("as_weights", True) else F(w)
                    imb = target - pos
                    if imb == 0:
                        continue
                    iw = mult * imb * F(ask if imb > 0 else bid) / nlv
                    if abs(iw) < thr * F(101, 100) + F(1, 10 ** 9):
                        continue
                    probe("change_clearly_outside_the_no_trade_band")
                    after = reb["post"]["nr"].get(sym, 0.0)
                    if abs(F(after) - target) > F(1, 10 ** 7) * max(1, abs(target)) and abs(F(after) - pos) <= F(1, 10 ** 9) * max(1, abs(pos)):
                        violate("executed_weights", "step {}: the action moves {} from {} to {} contracts ({} of NLV, band {}) but the position was left unchanged".format(
                            k, sym, float(pos), float(target), float(iw), float(thr)), op=k, kind="outside_band_not_executed")
                        break
            if violations:
                break
        if violations:
            break
        if pending_bad is not None and not dead:
            n_done = sum(1 for st in ep["steps"] if not st["done_before"])
            if pending_bad + delay >= n_done:
                probe("malformed_deep_in_queue_episode_ends_first")
        kinds.append("{}{}".format(len(ep["steps"]), "x" if dead else ""))
    if sp["type"] == "discrete" and not sp.get("as_weights", True):
        probe("discrete_nr_contracts_mode")
    trace = "{}|w{}f{}c{}m{}|d{}|{}|{}|{}".format(sp["type"], int(sp.get("as_weights", True)), int(sp.get("fractional", True)), int(bool(sp.get("with_cash"))),
                                                 sp.get("margin", 0), delay, bad_kind, "".join(kinds), int(bool(scenario.get("frictionless"))))
    return {"violations": violations, "digest": core.digest(sim.log_for_digest()), "probes": probes, "faults": sim.faults,
            "stats": sim.stats, "trace": trace, "nontrivial": executed_ok >= 1 and len(probes) >= 1}


def epicheck_params(h, sym):
    led = getattr(h, "_c17_ledger", None)
    if led is None:
        led = epicheck.ReplayLedger(h)
        h._c17_ledger = led
    return led.params[sym]


def noncash(hold):
    return {k: v for k, v in (hold or {}).items() if k != "USD"}


def describe(scenario):
    if scenario.get("kind") == "xy":
        return {"kind": "xy", "kwargs": scenario["kwargs"], "rows": len(scenario["tables"]["dates"]), "actions": scenario["actions"], "bad_at": scenario.get("bad_at")}
    return gen_epi.describe(scenario)


def shrink_paths(scenario):
    if scenario.get("kind") == "xy":
        return [("actions",)]
    return [("script",)]


from tesim.props.c04 import simplify as _simplify_epi  # noqa: E402


def simplify(scenario):
    if scenario.get("kind") == "xy":
        return
    for c in _simplify_epi(scenario):
        yield c


generate = gen_epi.with_backtest_driver(generate, 0.2)
