"""C02 - no look-ahead: outputs up to time t never depend on data stamped after t."""
import copy
import random
import warnings

import numpy as np
import pandas as pd

from tesim import core, epi, gen_epi, epicheck, xy
from tesim.core import canon
from tesim.epimodel import Delivery, us

PROP = "C02"
PLAN = {"quick": 1800, "thorough": 120000}
TIMEOUT = 120
CHUNK = 30
RULE = ("twin histories: a seeded bar-shaped world (plus extra quotes, custom events, observations, rate events at arbitrary "
        "offsets, latency, delay, folds, warm-up / markov reset, windowed features) and a pre-drawn action sequence are run "
        "three times - base, variant A with the values of every event stamped > t rewritten, variant B with the values of "
        "every event stamped > t+latency rewritten (timestamps and counts untouched) - for a random cut timestep t. The "
        "complete logs (observations, rewards, done flags, trades, holdings, margins, NLV, track-record entries, every "
        "observer callback, book contents) must be bit-identical up to and including the step landing on t (A, B), and the "
        "rebalancing executed in the following step (allocation, trades, prices, commissions, pre-trade context) must be "
        "identical under B. One run in twelve does the same through TradingEnvXY: rows of X, Y and rate dated after t are "
        "rewritten with the transformer fitted up to a date <= t. Non-trivial: the perturbation changed something after the "
        "cut, >=1 trade before it and >=1 probe; distinct = (cut position class, latency class, delay, folds/warm-up/markov, "
        "kinds of perturbed events, xy or epi)")
ASSUMPTIONS = [
    "bar-shaped streams (a quote at every timestep), so the clock after a step equals the timestep it landed on",
    "actions are pre-drawn and do not depend on observations",
    "no reference model: soundness rests on the determinism of the executor (re-checked per run in a fresh interpreter)",
]
COMPONENTS = {"real": ["Transmitter", "TradingEnv", "TradingEnvXY", "Exchange", "Broker", "State", "Feature", "sklearn transformers"],
              "harness": ["event-value perturbation", "recording observers"], "stub": []}
PROBE_FLOORS = {"xy_transformer_fitted_by_the_caller": 3, "cut_on_first_step": 27, "cut_on_last_step": 30, "cut_in_middle": 80, "extra_events_in_latency_window_after_cut": 17,
                "fold_boundary_after_cut": 10, "window_straddles_cut": 100, "effective_perturbation": 114, "xy_twin": 12, "judged_on_second_environment_with_smaller_latency": 15, "custom_events_loaded_from_table": 25, "final_track_record_entry_compared": 800, "xy_second_environment_from_the_same_tables": 5, "xy_feature_rows_stamped_nanoseconds_after_the_cut": 6}

PROFILE = {
    "n_min": 4, "n_max": 14, "n_long": 40, "p_long": 0.08, "c_min": 1, "c_max": 4, "p_bar": 1.0, "extras_max": 12,
    "extra_kinds": ["nbbo", "nbbo", "custom", "obs"], "p_sparse_grid": 0.0, "p_folds": 0.3, "p_markov": 0.2, "p_warmup": 0.25, "p_custom_frame": 0.25,
    "delays": [0, 0, 1, 2], "contract_kinds": ["ETF", "spot", "margined", "future"], "p_with_cash": 0.2,
    "fixed_fees": [0, 0.01], "p_rate": 0.4, "spreads": [0, 0.001, 0.01],
}


def generate(rng, i):
    if i % 12 == 11:
        return generate_xy(rng, i)
    env = gen_epi.gen_env(rng, PROFILE)
    if rng.random() < 0.3:
        nobs = 2
        env["state"] = {"type": "window", "n": nobs, "window": rng.randint(1, 4), "stride": rng.choice([None, None, 2])}
        # windowed State needs an observation at or before the first step
        g0 = env["grid"][0]
        for k, g in enumerate(env["grid"]):
            env["events"].append({"t": g, "type": "obs", "data": [round(rng.uniform(-2, 2), 4) for _ in range(nobs)], "id": len(env["events"]) + 1000 + k})
        env["markov"] = False
        env["warmup_s"] = None
    else:
        env["state"] = {"type": "rec", "feature": True, "k": rng.randint(1, 4)}
        if rng.random() < 0.35:
            # a second feature that is notified rarely but reads live quotes whenever it is parsed: what its history
            # holds under a timestamp <= t is compared between the twins at the end of the episode
            env["state"]["sparse_feature"] = True
    if rng.random() < 0.2:
        env["episode_length"] = rng.randint(1, max(1, len(env["grid"]) - 2))
    fold = rng.choice(sorted(env["folds"])) if env["folds"] else None
    steps = gen_epi.episode_steps(env, fold)
    if len(steps) < 2 or (env["episode_length"] and len(steps) < env["episode_length"] + 1):
        env["episode_length"] = None
        env["folds"] = None
        fold = None
        steps = gen_epi.episode_steps(env, None)
    script = gen_epi.full_episode_script(rng, env, fold=fold)
    judged_latency = None
    if env["latency_us"] > 0 and not gen_epi.auto_disc(env) and rng.random() < 0.25:
        # a latency sweep: the transmitter first served an environment with the larger latency (built and reset
        # once), then a new environment with latency 0 is built on it and plays the judged episode
        script = [dict(script[0]), {"op": "new_env", "env": 0, "latency_us": 0}] + script     # (same seed: same sampled start)
        judged_latency = 0
    cut = rng.choice(steps)
    r = rng.random()
    if r < 0.1:
        cut = steps[0]
    elif r < 0.2:
        cut = steps[-1]
    return {"kind": "epi", "envs": [env], "clock0": "1999-01-01T00:00:00", "script": script, "prng": rng.randrange(2 ** 31),
            "cut": core.iso(cut), "pseed": rng.randrange(2 ** 31), "judged_latency_us": judged_latency}


def perturb(env, cut_us, pseed):
    """Rewrites the *values* of every event stamped after the cut."""
    prng = random.Random(pseed)
    out = copy.deepcopy(env)
    kinds = set()
    for e in out["events"]:
        if us(core.parse_t(e["t"])) <= cut_us:
            continue
        kinds.add(e["type"])
        if e["type"] == "nbbo":
            f = 1 + prng.uniform(-0.2, 0.2)
            e["bid"] *= f
            e["ask"] *= f
        elif e["type"] == "rate":
            e["r"] = prng.choice([0.0, 0.02, 0.07, 0.11])
        elif e["type"] == "custom":
            e["tag"] = e.get("tag", 0) + 100000
        elif e["type"] == "obs":
            e["data"] = [round(prng.uniform(-3, 3), 4) for _ in e["data"]]
    return out, kinds


def records_of(sim):
    return [canon({k: v for k, v in r.items()}) for r in sim.sink.records if r.get("env") == 0]


def execute(scenario):
    if scenario["kind"] == "xy":
        return execute_xy(scenario)
    violations, probes, violate, probe = epicheck.mk_violation_sink()
    env = scenario["envs"][0]
    cut = core.parse_t(scenario["cut"])
    lat_us = env.get("latency_us", 0) if scenario.get("judged_latency_us") is None else scenario["judged_latency_us"]
    base = epi.run_scenario(scenario)
    scA = copy.deepcopy(scenario)
    scA["envs"][0], kindsA = perturb(env, us(cut), scenario["pseed"])
    scB = copy.deepcopy(scenario)
    scB["envs"][0], kindsB = perturb(env, us(cut) + lat_us, scenario["pseed"] + 1)
    simA = epi.run_scenario(scA)
    simB = epi.run_scenario(scB)
    h = base.handles[0]
    ep = h.episodes[-1] if h.episodes else None      # the judged episode is the last one (an earlier bare reset may precede it)
    trades_before = 0
    effective = False
    cut_class = "none"
    if ep is not None and not ep["failed"]:
        # last API call whose clock is <= t
        calls = [ep["reset"]] + ep["steps"]
        upto = None
        following = None
        # the timestep each call lands on comes from the scenario (not from the clock the
        # environment reports, which a look-ahead defect could itself move)
        if scenario.get("judged_latency_us") is not None:
            probe("judged_on_second_environment_with_smaller_latency")
        spec_j = h.gen_specs[ep.get("gen", 0)]
        dmodel = Delivery(spec_j, gen_epi.auto_disc(spec_j))
        steps_fold = dmodel.fold_steps(ep["reset"]["fold"])
        i0 = 0
        if env.get("episode_length"):
            below = [j for j, g in enumerate(steps_fold) if g <= ep["reset"]["now"]]
            i0 = below[-1] if below else 0
        for j, c in enumerate(calls):
            land = steps_fold[i0 + j] if i0 + j < len(steps_fold) else None
            if land is not None and land <= cut and c.get("exc") is None and following is None:
                upto = c
            elif upto is not None and following is None:
                following = c
        rb = records_of(base)
        for name, sim in (("A", simA), ("B", simB)):
            ro = records_of(sim)
            if upto is not None:
                limit = upto["end_seq"]
                pa = [r for r in rb if r["seq"] <= limit]
                pb = [r for r in ro if r["seq"] <= limit]
                d = first_diff(pa, pb)
                if d is not None:
                    i, keys, kind, (x, y) = d
                    violate("prefix_depends_on_future", "variant {} (events stamped > {}{} rewritten): the log up to the step landing on {} differs at record {} ({}): fields {}: base {} / variant {}".format(
                        name, scenario["cut"], "" if name == "A" else " + latency", scenario["cut"], i, kind, keys,
                        {k: x.get(k) for k in keys} if isinstance(x, dict) else x, {k: y.get(k) for k in keys} if isinstance(y, dict) else y),
                        variant=name, kind=kind or "length", field=keys[0] if keys else "?")
                    break
            if ro != rb:
                effective = True
        if not violations:
            # what the track record says *at the end of the episode* about entries stamped <= t must not depend on
            # data stamped after t either (an entry that aliases live state changes after it was written)
            trb = base.track_record()
            for name, sim in (("A", simA),):
                tro = sim.track_record()
                for eb, eo in zip(trb, tro):
                    tb_ = eb["time"].to_pydatetime() if hasattr(eb["time"], "to_pydatetime") else eb["time"]
                    if tb_ > cut:
                        break
                    if canon(eb) != canon(eo):
                        keys = [k_ for k_ in eb if canon(eb[k_]) != canon(eo.get(k_))]
                        violate("prefix_depends_on_future", "variant {}: the track-record entry stamped {} (<= {}) read at the end of the episode differs in {}".format(
                            name, eb["time"], scenario["cut"], keys), variant=name, kind="track_record_entry", field=keys[0] if keys else "?")
                        break
                    probe("final_track_record_entry_compared")
        if not violations and env.get("state", {}).get("sparse_feature"):
            def feat_hist(sim):
                fs = [f for f in (sim.handles[0].state.features or []) if type(f).__name__ == "RecFeatureSparse"]
                return dict(fs[0].history) if fs else None
            hb, ha = feat_hist(base), feat_hist(simA)
            if hb is not None and ha is not None:
                def hist_upto(hh):
                    out = {}
                    for tkey, val in hh.items():
                        tt = tkey.to_pydatetime() if hasattr(tkey, "to_pydatetime") else tkey
                        if tt is not None and tt <= cut:
                            out[core.iso(tt)] = canon(val)
                    return out
                ub, ua = hist_upto(hb), hist_upto(ha)
                if ub != ua:
                    bad = sorted(set(ub) ^ set(ua)) or sorted(k_ for k_ in ub if ub[k_] != ua.get(k_))
                    violate("prefix_depends_on_future", "variant A: the history a feature recorded under timestamps <= {} differs between the twins (e.g. at {})".format(
                        scenario["cut"], bad[:2]), variant="A", kind="feature_history", field="history")
                probe("feature_history_compared")
                if len(ub) >= 2:
                    probe("feature_history_with_several_timestamps")
        if not violations and following is not None and following.get("exc") is None:
            # the trades executed in the following step depend on nothing stamped after t + latency (variant B)
            def exec_of(sim, call):
                for r in sim.sink.records:
                    if r.get("kind") == "EXEC" and call["seq"] < r["seq"] < call["end_seq"]:
                        return canon({"rebalancing": {k: r["rebalancing"][k] for k in ("time", "alloc", "trades", "pre", "interest")}, "books": r["books"]})
                return None
            eb = exec_of(base, following)
            callsB = [simB.handles[0].episodes[-1]["reset"]] + simB.handles[0].episodes[-1]["steps"]
            fB = callsB[calls.index(following)] if len(callsB) > calls.index(following) else None
            eo = exec_of(simB, fB) if fB is not None else None
            if eb != eo:
                keys = [k for k in (eb or {}) if (eo or {}).get(k) != eb.get(k)] if isinstance(eb, dict) else []
                violate("next_trades_depend_on_future", "variant B: the execution following the step landing on {} differs in {}: base {} / variant {}".format(
                    scenario["cut"], keys, str(eb)[:300], str(eo)[:300]), variant="B", kind="exec", field=keys[0] if keys else "?")
        # probes
        if any(es.get("via_frame") for es in scenario["envs"][0]["events"]):
            probe("custom_events_loaded_from_table")
        nsteps = len([s for s in ep["steps"] if not s["done_before"]])
        idx = calls.index(upto) if upto is not None else -1
        if idx == 0:
            probe("cut_on_first_step")
            cut_class = "first"
        elif idx == len(calls) - 1:
            probe("cut_on_last_step")
            cut_class = "last"
        elif idx > 0:
            probe("cut_in_middle")
            cut_class = "mid"
        if upto is not None:
            trades_before = sum(len(r["rebalancing"]["trades"]) for r in base.sink.records if r.get("kind") == "EXEC" and r["seq"] <= upto["end_seq"] and "rebalancing" in r)
        if lat_us and any(us(cut) < us(core.parse_t(e["t"])) <= us(cut) + lat_us for e in env["events"]):
            probe("extra_events_in_latency_window_after_cut")
        if env.get("folds"):
            fold = ep["reset"]["fold"]
            if fold and core.parse_t(env["folds"][fold][1]) <= cut + (core.parse_t(env["grid"][1]) - core.parse_t(env["grid"][0])):
                probe("fold_boundary_after_cut")
        st = env.get("state", {})
        if (st.get("type") == "window" and st.get("window", 1) > 1) or (st.get("type") == "rec" and st.get("k", 1) > 1):
            probe("window_straddles_cut")
        if effective:
            probe("effective_perturbation")
    trace = "epi|{}|l{}|d{}|f{}m{}w{}|{}|{}|n{}c{}|{}".format(cut_class, 0 if not lat_us else 1, env.get("delay", 0), int(bool(env.get("folds"))),
                                                   int(bool(env.get("markov"))), env.get("warmup_s"), "".join(sorted(k[0] for k in kindsA)), env["state"]["type"],
                                                   len(env["grid"]), env["grid"].index(scenario["cut"]) if scenario["cut"] in env["grid"] else -1,
                                                   "".join(sorted(c["kind"][0] for c in env["contracts"])))
    base.stats["twins"] = 2
    return {"violations": violations, "digest": core.digest(records_of(base)), "probes": probes, "faults": base.faults,
            "stats": base.stats, "trace": trace, "nontrivial": effective and trades_before >= 1 and len(probes) >= 1}


def first_diff(a, b):
    for i, (x, y) in enumerate(zip(a, b)):
        if x != y:
            keys = [k for k in set(x) | set(y) if x.get(k) != y.get(k)]
            return i, sorted(keys)[:4], x.get("kind"), (x, y)
    if len(a) != len(b):
        return min(len(a), len(b)), ["<length {} vs {}>".format(len(a), len(b))], None, (None, None)
    return None


# ---------------------------------------------------------------------------
# tabular clause
# ---------------------------------------------------------------------------
def generate_xy(rng, i):
    tb = xy.gen_tables(rng, {"n_min": 40, "n_max": 90})
    n = len(tb["dates"])
    kcut = rng.randint(n // 3, n - 3)
    window = rng.choice([1, 2, 3, 5])
    kw = {"window": window, "stride": rng.choice([None, 2]) if window > 1 else None, "spread": rng.choice([0, 0.001]),
          "transformer": rng.choice([None, "z-score", "yeo-johnson"]), "clip": rng.choice([5.0, 2.0]), "steps_delay": rng.choice([0, 1]),
          "margin": 0.0, "calendar": rng.choice(["NYSE", "24/7"]),
          # the transformer / reward scale are fitted up to a date <= t; often exactly t (rows right after it are rewritten)
          "transformer_end": tb["dates"][kcut if rng.random() < 0.4 else rng.randint(n // 4, kcut)]}
    ny = len(tb["ycols"])
    acts = [[round(rng.uniform(-0.3, 0.5), 4) for _ in range(ny)] for _ in range(7)]
    if i % 5 == 2:
        tb["x_offset_ns"] = 500      # feature rows stamped half a microsecond after the price rows (nanosecond index)
    sc = {"kind": "xy", "tables": tb, "kwargs": kw, "fold": None, "actions": acts, "np_seed": rng.randrange(2 ** 31),
          "cut": tb["dates"][kcut], "pseed": rng.randrange(2 ** 31), "shared_first": rng.random() < 0.4}
    if (i // 12) % 3 == 1 and kw["transformer"] is not None:
        # the caller fits the transformer itself, on rows dated <= t, and hands over the fitted instance; transformer_end
        # (documented as used only for an unfitted transformer) is left unset, so the reward scale is computed from the
        # whole price table: only feature rows are rewritten in the twin
        kw["transformer"] = "prefit:" + kw["transformer"]
        kw["prefit_end"] = kw.pop("transformer_end")
        sc["x_only"] = True
        sc["shared_first"] = False
    return sc


def perturb_tables(tb, cut, pseed, x_only=False):
    prng = random.Random(pseed)
    out = copy.deepcopy(tb)
    for j, d in enumerate(out["dates"]):
        if d <= cut or x_only:
            continue
        out["Y"][j] = [v * (1 + prng.uniform(-0.1, 0.1)) if v == v else v for v in out["Y"][j]]
        if out.get("rate") is not None:
            out["rate"][j] = round(prng.uniform(0, 0.05), 5)
    for row_i, j in enumerate(out["x_rows"]):
        if out["dates"][j] > cut or (out.get("x_offset_ns") and out["dates"][j] == cut):     # stamped a few hundred ns after the cut
            out["X"][row_i] = [prng.gauss(0, 2) if v == v else v for v in out["X"][row_i]]
    return out


def execute_xy(scenario):
    violations, probes, violate, probe = epicheck.mk_violation_sink()
    cut = pd.Timestamp(scenario["cut"])
    stats = {"ops": 0, "steps": 0, "twins": 1}
    with core.sim_context():
        try:
            env, *_ = xy.make_env(scenario)
            base = xy.run_episode(env, scenario["actions"], np_seed=scenario["np_seed"])
            sc2 = copy.deepcopy(scenario)
            sc2["tables"] = perturb_tables(scenario["tables"], scenario["cut"], scenario["pseed"], x_only=bool(scenario.get("x_only")))
            env2, *_ = xy.make_env(sc2)
            other = xy.run_episode(env2, scenario["actions"], np_seed=scenario["np_seed"])
        except Exception as e:
            return {"violations": [], "digest": core.digest(["refused", core.exc_name(e)]), "probes": {"build_refused": 1}, "faults": {},
                    "stats": {"ops": 1}, "trace": "xy-refused:" + core.exc_name(e), "nontrivial": False}
    a = [canon(r) for r in base if r.get("now") is not None and pd.Timestamp(r["now"]) <= cut]
    b = [canon(r) for r in other if r.get("now") is not None and pd.Timestamp(r["now"]) <= cut]
    stats["steps"] = len(base)
    stats["ops"] = len(base) + len(other)
    d = first_diff(a, b)
    if d is not None:
        i, keys, kind, (x, y) = d
        violate("prefix_depends_on_future", "tabular: rewriting rows dated after {} (transformer fitted up to {}) changes output {} ({}): fields {}: base {} / variant {}".format(
            scenario["cut"], scenario["kwargs"].get("transformer_end"), i, kind, keys, {k: x.get(k) for k in keys} if isinstance(x, dict) else x,
            {k: y.get(k) for k in keys} if isinstance(y, dict) else y), variant="XY", kind=kind or "length", field=keys[0] if keys else "?")
    effective = [canon(r) for r in base] != [canon(r) for r in other]
    probe("xy_twin")
    if scenario.get("shared_first"):
        probe("xy_second_environment_from_the_same_tables")
    if scenario["tables"].get("x_offset_ns") and len(a) >= 2:
        probe("xy_feature_rows_stamped_nanoseconds_after_the_cut")
    if effective:
        probe("effective_perturbation")
    if scenario.get("x_only") and effective and len(a) >= 2:
        probe("xy_transformer_fitted_by_the_caller")
    if len(a) >= 2:
        probe("cut_in_middle")
    if scenario["kwargs"]["window"] > 1:
        probe("window_straddles_cut")
    kw = scenario["kwargs"]
    trace = "xy|w{}|{}|{}|{}".format(kw["window"], kw["transformer"], kw["calendar"], ",".join(sorted(scenario["tables"]["faults"])))
    return {"violations": violations, "digest": core.digest([canon(r) for r in base]), "probes": probes, "faults": {f: 1 for f in scenario["tables"]["faults"]},
            "stats": stats, "trace": trace, "nontrivial": effective and len(a) >= 2}


def describe(scenario):
    if scenario["kind"] == "xy":
        from tesim.props import c18
        d = c18.describe(scenario)
        d["cut"] = scenario["cut"]
        return d
    d = gen_epi.describe(scenario)
    d["cut"] = scenario["cut"]
    return d


def shrink_paths(scenario):
    if scenario["kind"] == "xy":
        return []
    return [("envs", 0, "events")]


def simplify(scenario):
    if scenario["kind"] == "xy":
        from tesim.props import c18
        for c in c18.simplify(scenario):
            # the premise of the tabular clause must survive minimisation: transformer and reward scale fitted up to a date <= t
            te = c["kwargs"].get("transformer_end")
            if te is None or te > c["cut"] or c["cut"] not in c["tables"]["dates"]:
                continue
            yield c
        return
    from tesim.props import c04
    for c in c04.simplify(scenario):
        yield c


generate = gen_epi.with_backtest_driver(generate, 0.2)
