"""C04 - event delivery is complete, exactly-once, on time and in timestamp order."""
import copy
from datetime import timedelta

from tesim import core, epi, gen_epi
from tesim.epimodel import Delivery

PROP = "C04"
PLAN = {"quick": 6000, "thorough": 400000}
TIMEOUT = 30
CHUNK = 100
OWN = ("EventReset", "EventStep", "EventDone", "EventNewDate")
RULE = ("seeded worlds: grids of 2-40 points (regular, irregular, daily, date-crossing; handed to the Transmitter unsorted and "
        "with duplicates), multisets of quotes / custom events / observations placed before the grid, on a grid point, 1us "
        "after, inside (t,t+latency), exactly on t+latency, 1us beyond, mid-interval and after the grid's end, inserted "
        "sorted / reversed / shuffled; latencies 0..min gap-1us; folds (disjoint, overlapping, single-point, nested), warm-up "
        "horizons, markov reset, episode_length; 1-4 consecutive episodes (complete or abandoned) per environment. The "
        "recorded callback log of two observers and the EXEC markers are compared per segment (reset, step k) with the "
        "delivery model. Non-trivial: >=1 complete segment with >=1 delivery and >=1 probe; distinct = distinct sequences "
        "of placement classes of events relative to grid and latency plus episode shapes")
ASSUMPTIONS = [
    "every episode timestep carries at least one non-latent event (bar-shaped data), otherwise two executions share a stamp and TrackRecord refuses the second - outside what C04 speaks about",
    "the warm-up horizon selects past *timesteps* (events belonging to timesteps within the horizon), as the statement says",
    "expiry instants of built-in futures are read from the library (C19)",
]
COMPONENTS = {"real": ["Transmitter", "TradingEnv.reset/step/notify", "IEvent.notify dispatch", "Exchange", "Broker", "IState", "Feature"],
              "harness": ["recording IState/Feature subclasses", "custom IEvent classes", "delivery model"], "stub": []}
PROBE_FLOORS = {"history_replay_with_latency": 100, "latent_last_before_first_step": 30, "date_change_in_latent_batch": 5,
                "duplicate_timesteps": 118, "event_exactly_on_latency_bound": 100, "event_1us_after_latency_bound": 50,
                "reset_after_abandonment": 100, "later_fold_with_latency": 50, "markov_reset": 100, "warmup_horizon": 100,
                "single_event_day": 20, "empty_timestep_skipped": 19, "episode_after_observer_crash": 60,
                "custom_events_loaded_from_table": 200, "episode_on_a_second_environment_of_the_transmitter": 100,
                "events_added_before_second_environment": 50, "second_environment_with_another_latency": 35, "quotes_loaded_with_add_prices": 300,
                "price_table_with_repeated_timestamps": 60, "environment_construction_refused": 50, "observers_with_inherited_callbacks": 170,
                "date_boundary_with_the_same_day_of_month": 1500}

PROFILE = {
    "n_min": 2, "n_max": 10, "n_long": 30, "p_long": 0.08, "c_min": 1, "c_max": 3, "p_bar": 0.8, "extras_max": 12,
    "p_sparse_grid": 0.2, "p_folds": 0.5, "p_markov": 0.25, "p_warmup": 0.35, "delays": [0, 0, 1], "p_custom_frame": 0.2, "p_prices_table": 0.2,
    "contract_kinds": ["ETF", "ETF", "spot", "margined"],
    "grid_styles": ["regular", "irregular", "irregular", "daily", "calendar"],
}


def ensure_nonlatent(env):
    """Domain restriction: add a bar of contract 0 on any event-bearing
    timestep that would otherwise have only latent events."""
    d = Delivery(env, gen_epi.auto_disc(env))
    added = False
    for g in d.timesteps_with_events:
        if all(d.latent[eid] for (_, _, eid, _) in d.bucket[g]):
            env["events"].append({"t": core.iso(g), "type": "nbbo", "c": 0, "bid": 50.0, "ask": 50.0, "id": max(e["id"] for e in env["events"]) + 1})
            added = True
    return added


def in_domain(scenario):
    """What the generator guarantees and minimisation must keep: on every event-bearing timestep at least one
    event is not latent - both before the late events are handed over and afterwards (otherwise two
    consecutive decisions carry the same timestamp, which the track record refuses by design)."""
    if scenario.get("kind") != "epi":
        return True
    env = scenario["envs"][0]
    lat_after = env["latency_us"]
    for op in scenario["script"]:
        if op["op"] == "new_env" and op.get("latency_us") is not None:
            lat_after = op["latency_us"]
    variants = [dict(env, events=[es for es in env["events"] if not es.get("late")]), dict(env, latency_us=lat_after)]
    for v in variants:
        if not v["events"]:
            continue
        d = Delivery(v, gen_epi.auto_disc(v))
        for g in d.timesteps_with_events:
            if all(d.latent[eid] for (_, _, eid, _) in d.bucket[g]):
                return False
    return True


def generate(rng, i):
    trading = rng.random() < 0.4
    pf = dict(PROFILE)
    if trading:
        # every contract quoted at every timestep, so that any action can be executed
        pf.update({"p_bar": 1.0, "p_sparse_grid": 0.0})
    env = gen_epi.gen_env(rng, pf)
    if rng.random() < 0.25:
        env["state"]["inherited"] = True        # observers whose callbacks are all inherited from a parent class
    if rng.random() < 0.1 and not env["state"].get("inherited"):
        env["state"]["twin_class"] = True       # a same-named observer class with fewer subscriptions was instanced earlier
    if rng.random() < 0.06:
        env["prior_env"] = True                 # the transmitter served another environment before this one was built
    if rng.random() < 0.06:
        # the caller reuses the list of timesteps for another transmitter and adds timesteps to that other one
        from datetime import timedelta as _td
        g = [core.parse_t(x) for x in env["grid"]]
        env["grid_shared_with"] = [core.iso(g[j] + (g[j + 1] - g[j]) / 2) for j in range(len(g) - 1)][:3]
    ensure_nonlatent(env)
    d = Delivery(env, gen_epi.auto_disc(env))
    folds = list(env["folds"]) if env["folds"] else [None]
    if rng.random() < 0.25:
        env["episode_length"] = rng.randint(1, 4)
    script = []
    n_ep = rng.randint(1, 4)
    for e in range(n_ep):
        fold = rng.choice(folds)
        steps = d.fold_steps(fold)
        L = env["episode_length"]
        if not steps or (L and len(steps) < L + 1):
            continue
        nsteps = L if L else len(steps) - 1
        if e < n_ep - 1 and rng.random() < 0.5:
            nsteps = rng.randint(0, nsteps)      # abandoned mid-way
        script.append({"op": "reset", "env": 0, "fold": fold, "np_seed": rng.randrange(2 ** 31)})
        for k in range(nsteps):
            a = gen_epi.gen_action(rng, env) if trading else (0 if env["space"]["type"] == "discrete" else
                                                              [0.0] * (len(env["contracts"]) + (1 if env["space"].get("with_cash") else 0)))
            script.append({"op": "step", "env": 0, "action": a})
    if not script:
        script = [{"op": "reset", "env": 0, "fold": folds[0], "np_seed": 1}]
    resets = [j for j, op in enumerate(script) if op["op"] == "reset"]
    if len(resets) >= 2 and rng.random() < 0.15 and not gen_epi.auto_disc(env):
        # a new TradingEnv object on the same transmitter before one of the later episodes: after more events were
        # handed to the transmitter and / or with a smaller latency (a latency sweep; data appended between backtests)
        e = rng.randrange(1, len(resets))
        cand = [es for es in env["events"] if es["type"] in ("custom", "obs") and not es.get("via_frame")]
        add = [es["id"] for es in rng.sample(cand, k=min(len(cand), rng.randint(0, 3)))] if cand else []
        for es in env["events"]:
            if es["id"] in add:
                es["late"] = True
        gen0 = dict(env, events=[es for es in env["events"] if not es.get("late")])
        n0 = len(gen0["events"])
        if ensure_nonlatent(gen0):
            # every timestep keeps an event that is not latent also before the late ones are handed over
            nxt = max(es["id"] for es in env["events"]) + 1
            for es in gen0["events"][n0:]:
                es["id"] = nxt
                nxt += 1
                env["events"].append(es)
        op = {"op": "new_env", "env": 0, "add": add}
        if env["latency_us"] > 0 and rng.random() < 0.5:
            op["latency_us"] = 0
        script.insert(resets[e], op)
        resets = [j for j, op_ in enumerate(script) if op_["op"] == "reset"]
    if len(resets) >= 2 and rng.random() < 0.15:
        # fault: an observer callback fails in the middle of delivery in one of the earlier episodes
        # (during its history replay or inside a step); the episodes that follow must be delivered in full
        e = rng.randrange(len(resets) - 1)
        script.insert(resets[e + 1], {"op": "arm", "env": 0, "n": None})
        script.insert(resets[e], {"op": "arm", "env": 0, "n": rng.choice([1, 2, 3, 5, 8, 13, 21, 34])})
    if rng.random() < 0.08:
        # fault: the transmitter is handed one more (unobserved, out-of-range) event after the environment was built
        resets = [j for j, op in enumerate(script) if op["op"] == "reset"]
        script.insert(rng.choice(resets), {"op": "late_add", "env": 0})
    if rng.random() < 0.08 and len(env["grid"]) >= 2:
        # error path: a refused attempt to build another environment on the same transmitter (latency >= smallest gap)
        pos = rng.randrange(len(script) + 1)
        script.insert(pos, {"op": "bad_env", "env": 0, "factor": rng.choice([1.0, 1.5, 10.0])})
    return {"kind": "epi", "envs": [env], "clock0": "1999-01-01T00:00:00", "script": script, "prng": rng.randrange(2 ** 31)}


def placement_class(d, t, lat_us):
    from tesim.epimodel import us
    import bisect
    G = d.G
    if t < G[0]:
        return "b"
    if t > G[-1]:
        return "z"
    i = bisect.bisect_left(G, t)
    if G[i] == t:
        return "g"
    off = us(t) - us(G[i - 1])
    if off == lat_us:
        return "L"
    if off == lat_us + 1:
        return "l"
    if off < lat_us:
        return "i"
    return "m"


def check_episode(env_spec, d, ep, sim, violate, probe):
    """Compare one recorded episode with the delivery model."""
    reset = ep["reset"]
    fold = reset["fold"]
    steps_fold = d.fold_steps(fold)
    L = env_spec.get("episode_length")
    if ep["failed"]:
        # reset refused: only legitimate if the episode cannot fit / no event-bearing step
        if not steps_fold or (L and len(steps_fold) < L + 1):
            return
        violate("unexpected_exception", "reset(fold={}) raised {}: {}".format(fold, reset["exc"], reset.get("msg")),
                exc=reset["exc"], where="reset")
        return
    if not steps_fold:
        violate("reset_without_steps", "reset into a fold without event-bearing timesteps succeeded", kind="empty_fold")
        return
    recs = [r for r in sim.sink.records if r.get("env") == 0]
    s0, e0 = reset["seq"], reset["end_seq"]
    # which timesteps does this episode visit?
    now = reset["now"]
    start = None
    for j, g in enumerate(steps_fold):
        if d.bucket[g][-1][0] == now:
            start = j
    if start is None:
        violate("on_time", "after reset the clock {} is not the last event of any timestep of fold {}".format(now, fold), kind="start")
        return
    if L:
        if start + L + 1 > len(steps_fold):
            violate("on_time", "episode of length {} started at index {} of {} fold steps".format(L, start, len(steps_fold)), kind="start_does_not_fit")
            return
        steps = steps_fold[start:start + L + 1]
    else:
        if start != 0:
            violate("on_time", "episode without length limit started at fold step {} instead of the first".format(start), kind="start")
            return
        steps = steps_fold
    expected = d.episode(steps)
    # split expected into segments
    exp_segments = []
    cur = []
    for item in expected:
        if item[0] in ("RESET_END", "STEP_END"):
            exp_segments.append(cur)
            cur = []
        else:
            cur.append(item)
    # observed segments
    bounds = [(s0, e0)] + [(st["seq"], st["end_seq"]) for st in ep["steps"]]
    done_flags = [reset.get("done")] + [st.get("done") for st in ep["steps"]]
    if len(bounds) > len(exp_segments):
        if any(st.get("exc") is None for st in ep["steps"][len(exp_segments) - 1:]):
            violate("on_time", "episode accepted {} steps but only {} timesteps follow the first".format(len(ep["steps"]), len(exp_segments) - 1), kind="too_many_steps")
            return
        bounds = bounds[:len(exp_segments)]
    lat_us = d.lat_us
    for seg_i, (a, b) in enumerate(bounds):
        if seg_i > 0 and ep["steps"][seg_i - 1].get("exc") is not None:
            violate("unexpected_exception", "step {} raised {}: {} [{}]".format(seg_i - 1, ep["steps"][seg_i - 1]["exc"], ep["steps"][seg_i - 1].get("msg"),
                    ep["steps"][seg_i - 1].get("site")), exc=ep["steps"][seg_i - 1]["exc"], where="step")
            return
        seg = [r for r in recs if a < r["seq"] < b]
        for observer, classes in (("state", None), ("feature", epi.FEATURE_EVENT_CLASSES)):
            if observer == "feature" and not env_spec["state"].get("feature", True):
                continue
            got = []
            for r in seg:
                if r["kind"] == "EXEC":
                    got.append(("EXEC",))
                elif r["kind"] == "cb" and r["obs"] == observer and r["cls"] not in OWN:
                    if r["slot"] != r["cls"]:
                        violate("subscription", "{} callback process_{} received a {}".format(observer, r["slot"], r["cls"]), kind="wrong_slot")
                        return
                    got.append(("M", r["id"], r["time"]))
            exp = []
            for item in exp_segments[seg_i]:
                if item[0] == "EXEC":
                    exp.append(item)
                else:
                    es_cls = event_class(d, item[1])
                    if classes is None or es_cls in classes:
                        exp.append(item)
            if got != exp:
                diagnose(got, exp, seg_i, observer, violate, d)
                return
        # own notifications in this segment
        last_m = None
        prev_seg_last = None
        own_seen = []
        for r in seg:
            if r["kind"] != "cb" or r["obs"] != "state":
                continue
            if r["cls"] in OWN:
                own_seen.append(r)
        # ordering and stamps along the whole log are checked below
        # the episode is over exactly when its last timestep has been processed
        want_done = (seg_i == len(exp_segments) - 1)
        if bool(done_flags[seg_i]) != want_done:
            violate("episode_end", "segment {} of {}: done={} but the episode's last timestep {} been reached".format(
                seg_i, len(exp_segments) - 1, done_flags[seg_i], "has" if want_done else "has not"), kind="done_early" if done_flags[seg_i] else "not_done_at_end")
            return
        names = [r["cls"] for r in own_seen if r["cls"] != "EventNewDate"]
        want = ["EventReset"] if seg_i == 0 else ["EventStep"]
        if done_flags[seg_i]:
            want.append("EventDone")
        if names != want:
            violate("own_notifications", "segment {}: own notifications {} expected {}".format(seg_i, names, want), kind="own_set")
            return
    # stamps & order along the episode, per observer
    end_seq = bounds[-1][1]
    for observer in ("state", "feature"):
        last_t = None
        last_market_t = None
        for r in recs:
            if not (s0 < r["seq"] < end_seq) or r["kind"] != "cb" or r["obs"] != observer:
                continue
            t = r["time"]
            if last_t is not None and t < last_t:
                violate("order", "{} saw {} stamped {} after an event stamped {}".format(observer, r["cls"], t, last_t),
                        kind="own" if r["cls"] in OWN else "market")
                return
            last_t = t
            if observer == "state":
                if r["cls"] in OWN:
                    if last_market_t is not None and t != last_market_t:
                        violate("stamps", "{} stamped {} but the latest market event processed is stamped {}".format(r["cls"], t, last_market_t),
                                kind=r["cls"])
                        return
                else:
                    last_market_t = t
    # new-date notifications: exactly one in front of the first event of every new calendar date (consecutive
    # events handed to the environment whose dates differ), none between two events of the same date
    prev = None
    pending = 0
    for r in recs:
        if not (s0 < r["seq"] < end_seq) or r["kind"] != "cb" or r["obs"] != "state":
            continue
        if r["cls"] == "EventNewDate":
            pending += 1
            continue
        if prev is not None:
            crossed = prev["time"].date() != r["time"].date()
            if crossed:
                probe("date_boundary_crossed")
                if prev["time"].day == r["time"].day:
                    probe("date_boundary_with_the_same_day_of_month")
            if pending != (1 if crossed else 0):
                violate("new_date_notifications", "{} new-date notification(s) between the events stamped {} and {} ({} date)".format(
                    pending, prev["time"], r["time"], "another" if crossed else "the same"), kind="missing" if pending == 0 else "spurious")
                return
        prev = r
        pending = 0
    # books after reset == last quote per contract in the replayed history
    hist = d.history(steps[0])
    want_book = {}
    dead = set()
    h = sim.handles[0]
    for (t, k, eid, es) in hist:
        if es["type"] == "nbbo":
            sym = sym_of(h, es)
            if sym not in dead:
                want_book[sym] = (es["bid"], es["ask"])
        elif es["type"] == "disc":
            sym = es.get("sym") or sym_of(h, es)
            dead.add(sym)
            want_book[sym] = (float("nan"), float("nan"))
    for sym, (bid, ask) in want_book.items():
        got = reset["books"].get(sym)
        if got is None:
            continue
        if not (same(got[0], bid) and same(got[1], ask)):
            violate("books_after_reset", "after reset the book of {} is {} but the latest replayed quote is {}:{}".format(sym, got, bid, ask), kind="stale_quote")
            return
    # probes
    if any(es.get("via_frame") for es in env_spec["events"]):
        probe("custom_events_loaded_from_table")
    if any(es.get("via_prices") for es in env_spec["events"]):
        probe("quotes_loaded_with_add_prices")
        pv = [(es["c"], es["t"]) for es in env_spec["events"] if es.get("via_prices")]
        if len(pv) != len(set(pv)):
            probe("price_table_with_repeated_timestamps")
    if lat_us > 0 and len(hist) > len(d.bucket[steps[0]]):
        probe("history_replay_with_latency")
    if lat_us > 0 and fold is not None and steps[0] != d.timesteps_with_events[0]:
        probe("later_fold_with_latency")
    if len(steps) > 1 and ep["steps"] and any(d.latent[x[2]] for x in d.bucket[steps[1]]):
        probe("latent_last_before_first_step")
    if env_spec.get("markov"):
        probe("markov_reset")
    if env_spec.get("warmup_s") is not None and not env_spec.get("markov"):
        probe("warmup_horizon")
    for g in steps[1:]:
        b = d.bucket[g]
        lat_part = [x for x in b if d.latent[x[2]]]
        if len(lat_part) >= 1 and any(x[0].date() != y[0].date() for x, y in zip(lat_part, lat_part[1:])):
            probe("date_change_in_latent_batch")
        if lat_part and b and lat_part[0][0].date() != (d.bucket[steps[steps.index(g) - 1]][-1][0]).date():
            probe("date_change_in_latent_batch")
        if len(b) == 1:
            probe("single_event_day")


def same(a, b):
    return (a != a and b != b) or a == b


def sym_of(h, es):
    c = es["c"]
    if isinstance(c, list):
        return h.contracts[c[0]].contracts[c[1]].symbol
    if c == "rate":
        return "__rate__"
    spec = h.spec["contracts"][c]
    if spec["kind"] == "chain":
        return None
    return h.contracts[c].symbol


def event_class(d, eid):
    if isinstance(eid, str) and eid.startswith("disc:"):
        return "EventContractDiscontinued"
    es = d._by_id[eid]
    return {"nbbo": "EventNBBO", "rate": "EventNBBO", "obs": "EventNewObservation", "disc": "EventContractDiscontinued"}.get(es["type"]) or es["cls"]


def diagnose(got, exp, seg_i, observer, violate, d):
    gm = [x[1] for x in got if x[0] == "M"]
    em = [x[1] for x in exp if x[0] == "M"]
    seg = "reset" if seg_i == 0 else "step {}".format(seg_i - 1)
    if sorted(map(str, gm)) != sorted(map(str, em)):
        missing = [x for x in em if x not in gm]
        extra = [x for x in gm if x not in em]
        dup = [x for x in set(map(str, gm)) if list(map(str, gm)).count(x) > 1]
        kind = "duplicate" if dup else ("missing" if missing and not extra else ("extra" if extra and not missing else "wrong_set"))
        violate("exactly_once_on_time", "{} at {}: delivered events {} expected {} (missing {}, unexpected {}, duplicated {})".format(
            observer, seg, gm[:12], em[:12], missing[:6], extra[:6], dup[:6]), kind=kind, seg="reset" if seg_i == 0 else "step")
        return
    # same multiset: order or latency split
    before_g = set(str(x[1]) for x in got[:got.index(("EXEC",))] if x[0] == "M") if ("EXEC",) in got else None
    before_e = set(str(x[1]) for x in exp[:exp.index(("EXEC",))] if x[0] == "M") if ("EXEC",) in exp else None
    if before_g != before_e:
        violate("latency_split", "{} at {}: events applied before the execution {} expected {}".format(
            observer, seg, sorted(before_g or []), sorted(before_e or [])), kind="split" if before_g is not None and before_e is not None else "exec_missing")
        return
    violate("order", "{} at {}: delivery order {} expected {}".format(observer, seg, gm[:14], em[:14]), kind="market",
            seg="reset" if seg_i == 0 else "step")


def execute(scenario):
    sim = epi.run_scenario(scenario)
    env_spec = scenario["envs"][0]
    d = Delivery(env_spec, gen_epi.auto_disc(env_spec))
    d._by_id = {es["id"]: es for es in env_spec["events"]}
    violations, probes = [], {}

    def violate(clause, msg, **sig):
        if not violations:
            violations.append({"clause": clause, "sig": sig, "op": None, "msg": msg})

    def probe(n):
        probes[n] = probes.get(n, 0) + 1

    h = sim.handles[0]
    models = {}
    for j, ep in enumerate(h.episodes):
        g = ep.get("gen", 0)
        if g not in models:
            spec_g = h.gen_specs[g]
            dg = Delivery(spec_g, gen_epi.auto_disc(spec_g))
            dg._by_id = {es["id"]: es for es in spec_g["events"]}
            models[g] = (spec_g, dg)
        env_spec, d = models[g]
        if g > 0:
            probe("episode_on_a_second_environment_of_the_transmitter")
            if len(env_spec["events"]) > len(h.gen_specs[0]["events"]):
                probe("events_added_before_second_environment")
            if env_spec["latency_us"] != h.gen_specs[0]["latency_us"]:
                probe("second_environment_with_another_latency")
        if ep["reset"].get("exc") == "InjectedCrash" or any(st.get("exc") == "InjectedCrash" for st in ep["steps"]):
            # the harness made an observer fail during this episode: its own delivery is cut short by
            # construction; what is judged is every episode after it
            probe("episode_cut_short_by_observer_crash")
            if j + 1 < len(h.episodes):
                probe("episode_after_observer_crash")
            continue
        check_episode(env_spec, d, ep, sim, violate, probe)
        if j > 0 and not ep["failed"]:
            prev = h.episodes[j - 1]
            if not prev["failed"] and (not prev["steps"] or not prev["steps"][-1].get("done")) and not prev["reset"].get("done"):
                probe("reset_after_abandonment")
        if violations:
            break
    if sim.faults.get("environment_construction_refused"):
        probe("environment_construction_refused")
    if scenario["envs"][0]["state"].get("inherited"):
        probe("observers_with_inherited_callbacks")
    if scenario["envs"][0].get("prior_env"):
        probe("second_environment_from_the_start")
    if scenario["envs"][0].get("grid_shared_with"):
        probe("timestep_list_shared_with_another_transmitter")
    if len(env_spec.get("grid_input", [])) > len(env_spec["grid"]):
        probe("duplicate_timesteps")
    if len(d.timesteps_with_events) < len(d.G):
        probe("empty_timestep_skipped")
    classes = []
    for (t, k, eid, es) in d.events:
        pc = placement_class(d, t, d.lat_us)
        classes.append(pc)
        if pc == "L" and d.lat_us > 0:
            probe("event_exactly_on_latency_bound")
        if pc == "l" and d.lat_us > 0:
            probe("event_1us_after_latency_bound")
    shapes = "".join("R" + str(len(ep["steps"])) + ("x" if ep["failed"] else "") for ep in h.episodes)
    trace = "{}|{}|lat{}|m{}w{}|f{}".format("".join(classes), shapes, 0 if d.lat_us == 0 else 1, int(bool(env_spec.get("markov"))),
                                            env_spec.get("warmup_s"), len(env_spec["folds"] or {}))
    n_deliv = sum(1 for r in sim.sink.records if r["kind"] == "cb")
    sim.stats["deliveries"] = n_deliv
    sim.stats["sim_seconds"] = int((d.G[-1] - d.G[0]).total_seconds())
    return {"violations": violations, "digest": core.digest(sim.log_for_digest()), "probes": probes, "faults": sim.faults,
            "stats": sim.stats, "trace": trace, "nontrivial": n_deliv >= 1 and len(probes) >= 1 and any(not ep["failed"] for ep in h.episodes)}


def describe(scenario):
    return gen_epi.describe(scenario)


def shrink_paths(scenario):
    return [("script",), ("envs", 0, "events")]


def simplify(scenario):
    env = scenario["envs"][0]
    if env.get("folds"):
        c = copy.deepcopy(scenario)
        c["envs"][0]["folds"] = None
        for op in c["script"]:
            if op["op"] == "reset":
                op["fold"] = None
        yield c
    for key, val in (("warmup_s", None), ("markov", False), ("delay", 0), ("episode_length", None)):
        if env.get(key) not in (val, None) or (key == "markov" and env.get(key)):
            c = copy.deepcopy(scenario)
            c["envs"][0][key] = val
            yield c
    if env.get("grid_input") and env["grid_input"] != list(range(len(env["grid"]))):
        c = copy.deepcopy(scenario)
        c["envs"][0]["grid_input"] = list(range(len(env["grid"])))
        yield c
    if env["fees"].get("fixed") or env["fees"].get("prop"):
        c = copy.deepcopy(scenario)
        c["envs"][0]["fees"] = {"fixed": 0, "prop": 0, "markup": 0.0}
        yield c
    if env["state"].get("feature"):
        c = copy.deepcopy(scenario)
        c["envs"][0]["state"]["feature"] = False
        yield c


generate = gen_epi.with_backtest_driver(generate, 0.2)
_generate_bt = generate


def generate(rng, i):
    return gen_epi.add_timesteps_later(_generate_bt(rng, i), 0.1)
