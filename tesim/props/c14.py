"""C14 - order book semantics: last quote wins, per-contract isolation, dead
stays dead, chain keys address the current lead."""
from datetime import timedelta

from tesim import core, world
from tesim.core import canon
from tradingenv.exchange import Exchange
from tradingenv.events import EventNBBO, EventContractDiscontinued
from tradingenv.contracts import AbstractContract
import numpy as np

PROP = "C14"
PLAN = {"quick": 12000, "thorough": 600000}
TIMEOUT = 20
CHUNK = 300
NAN = float("nan")
RULE = ("seeded interleavings of quote and discontinuation events over 2-8 keys (assets, single futures, futures chains, "
        "string keys equal to a contract's symbol), revival attempts after discontinuation, foreign moves of the process-wide "
        "contract clock (inside every chain's span) and query bursts (bid/ask/mid/history/acq_prices/liq_prices with signs "
        "+,-,0), checked after every operation against a dict model (last quote wins per key, history = accepted quotes in "
        "order, dead books stay NaN and ignore quotes, chain key == book of lead(now)). Non-trivial: >=1 quote and >=1 probe; "
        "distinct = distinct sequences of (op kind, key kind, alive/dead, lead index)")
ASSUMPTIONS = [
    "string keys are used for queries only (EventNBBO requires a contract object)",
    "clock values stay inside every chain's span (outside it a chain has no lead by definition, C11)",
    "last-trading instants of built-in futures are taken from the library (their correctness is C19)",
]
COMPONENTS = {"real": ["Exchange", "LimitOrderBook", "EventNBBO", "EventContractDiscontinued", "IEvent.notify dispatch", "TradingEnv.notify (one third of the runs)", "contracts", "FutureChain"],
              "harness": ["dict book model", "calendar-free lead model"], "stub": []}
PROBE_FLOORS = {"revival_attempt": 200, "chain_key_after_roll": 100, "string_key_query": 200, "quote_other_key_between": 500,
                "query_dead_book": 200, "chain_quote_dispatched_by_environment": 700, "events_delivered_by_an_episode": 350, "replay_with_events_inside_latency_windows": 200, "refused_step_then_retry": 120,
                "quote_through_a_chain_built_from_an_unsorted_list": 800,
                "chain_with_intraday_cutoff_looked_up_on_both_sides_of_it": 60}


def generate(rng, i):
    n = rng.randint(2, 8)
    specs = []
    have_chain = False
    for k in range(n):
        r = rng.random()
        if r < 0.45:
            specs.append({"name": "A{}".format(k), "kind": rng.choice(["ETF", "Stock", "Index"])})
        elif r < 0.6:
            specs.append({"name": "U{}".format(k), "kind": rng.choice(["spot", "margined"]), "mult": 2.0, "mreq": 0.1})
        elif r < 0.8 or have_chain:
            cls = rng.choice(["ES", "NK", "ZN"])
            specs.append({"name": "F{}".format(k), "kind": "future", "cls": cls, "year": 2019, "month": rng.choice([3, 6, 9, 12])})
        else:
            cls = rng.choice(["ES", "NK", "ZN", "VX"])
            specs.append({"name": "CH{}".format(k), "kind": "chain", "cls": cls, "start": "2019-01", "end": "2021-06",
                          "month": rng.choice([0, 0, 1])})
            have_chain = True
    for s in specs:
        if s["kind"] == "chain" and (s["month"] * 7 + len(specs) + i) % 3 == 0:
            s["listed_order_seed"] = i       # decided without consuming a draw of the generator's stream
    # keep symbols unique: two single futures of the same class/month collapse into one book by design
    seen = set()
    uniq = []
    for s in specs:
        key = (s["kind"], s.get("cls"), s.get("month"), s.get("name") if s["kind"] not in ("future",) else None)
        if s["kind"] == "future" and key in seen:
            continue
        seen.add(key)
        uniq.append(s)
    specs = uniq
    n = len(specs)
    t = core.parse_t("2019-01-02T00:00:00")
    script = []
    length = rng.randint(3, 30) if rng.random() < 0.9 else rng.randint(31, 150)
    mode = rng.choice(["direct", "notify", "env", "episode"])
    via_notify = mode != "direct"
    t_cap = core.parse_t("2020-06-01T00:00:00")
    last = {}
    for _ in range(length):
        r = rng.random()
        k = rng.randrange(n)
        dt = timedelta(seconds=rng.choice([0, 1, 60, 86400, 7 * 86400] + ([30 * 86400] if mode == "env" else []) + ([30, 20, 3 * 86400] if mode == "episode" else [])))
        if t + dt <= t_cap:
            t = t + dt
        if r < 0.45:
            mid = rng.choice([1.0, 10.0, 100.0, 2500.0]) * (1 + rng.uniform(-0.2, 0.2))
            sp = rng.choice([0, 0, 0.001, 0.02])
            bid, ask = mid * (1 - sp), mid * (1 + sp)
            if rng.random() < 0.05:
                bid = NAN
            if rng.random() < 0.05:
                ask = NAN
            if k in last and rng.random() < 0.15:
                bid, ask = last[k]          # duplicated quote: still appended to the history
                if rng.random() < 0.5:
                    ask = ask * 1.01
            last[k] = (bid, ask)
            script.append({"op": "quote", "k": k, "bid": bid, "ask": ask, "t": core.iso(t)})
        elif r < 0.57:
            script.append({"op": "disc", "k": k, "t": core.iso(t)})
        elif r < 0.72 and have_chain:
            script.append({"op": "clock", "t": core.iso(core.parse_t("2019-01-02T00:00:00") + timedelta(days=rng.randint(0, 400), hours=rng.choice([0, 0, 12])))})
        else:
            keys = [rng.randrange(n) for _ in range(rng.randint(1, 4))]
            script.append({"op": "query", "keys": keys, "signs": [rng.choice([1, -1, 0, 2.5, -0.5]) for _ in keys],
                           "by_string": rng.random() < 0.3})
    if mode in ("direct", "notify"):
        # late prints: a quote for a key that was discontinued earlier in the script is stamped *before* that
        # discontinuation (a feed delivering out of order) - dead stays dead whatever the stamp says; and now and then a
        # quote for a live book carries an older stamp too - the most recently processed quote rules
        dead_at = {}
        for op in script:
            if op["op"] == "disc" and op["k"] not in dead_at:
                dead_at[op["k"]] = core.parse_t(op["t"])
            elif op["op"] == "quote":
                if op["k"] in dead_at and rng.random() < 0.5:
                    op["t"] = core.iso(dead_at[op["k"]] - timedelta(seconds=rng.choice([1, 3600, 86400])))
                    op["late_print"] = True
                elif op["k"] not in dead_at and rng.random() < 0.04:
                    op["t"] = core.iso(core.parse_t(op["t"]) - timedelta(seconds=rng.choice([1, 3600])))
                    op["late_print"] = True
    chains = [k for k, s in enumerate(specs) if s["kind"] == "chain"]
    if chains and mode in ("direct", "notify") and i % 3 == 1:
        # a chain over a user-defined future with an intraday cut-off (noon of the 15th), looked up on a roll day
        # before and after the cut-off.  Decided and laid out without consuming draws of the generator's stream
        import random
        r2 = random.Random("roll-day:{}".format(i))
        k = chains[0]
        specs[k]["cls"] = "UN"
        day = "2019-{:02d}-15".format(r2.randint(2, 12))
        am, pm = r2.choice(["T09:00:00", "T00:00:00", "T11:59:59"]), r2.choice(["T13:00:00", "T12:00:00", "T23:00:00"])
        px = 50.0 + r2.randint(0, 20)
        motif = [{"op": "clock", "t": day + am}, {"op": "query", "keys": [k], "signs": [1], "by_string": False},
                 {"op": "clock", "t": day + pm}, {"op": "quote", "k": k, "bid": px, "ask": px + 0.5, "t": core.iso(t_cap)},
                 {"op": "query", "keys": [k], "signs": [-1], "by_string": False, "roll_day_motif": True}]
        if r2.random() < 0.5:
            motif.insert(1, {"op": "quote", "k": k, "bid": px - 1, "ask": px - 0.5, "t": core.iso(t_cap)})
        pos = r2.randint(0, len(script))
        script[pos:pos] = motif
    fail_at = rng.randint(1, 6) if (mode == "episode" and rng.random() < 0.4) else None
    return {"kind": "c14", "contracts": specs, "script": script, "via_notify": via_notify, "mode": mode, "clock0": "2019-01-02T00:00:00",
            "fail_at": fail_at}


class Model(object):
    def __init__(self, specs, contracts):
        self.specs = specs
        self.contracts = contracts
        self.books = {}

    def resolve(self, k, now):
        """Book id (symbol of the concrete contract) addressed by key k now."""
        s = self.specs[k]
        c = self.contracts[k]
        if s["kind"] != "chain":
            return c.symbol, None
        members = c.contracts
        # calendar-free lead: first listed contract whose last-trading instant is strictly later than now
        idx = None
        for j, f in enumerate(members):
            if f.last_trading_date > now:
                idx = j
                break
        if idx is None:
            raise core.HarnessError("clock outside chain span")
        idx += s.get("month", 0)
        return members[idx].symbol, idx

    def book(self, sym):
        if sym not in self.books:
            self.books[sym] = {"bid": NAN, "ask": NAN, "alive": True, "hist": []}
        return self.books[sym]


def same(a, b):
    return (a != a and b != b) or a == b


def execute(scenario):
    sc = scenario
    clock0 = core.parse_t(sc["clock0"])
    with core.sim_context(clock0=clock0):
        return _execute(sc, clock0)


def _execute_episode(sc, clock0):
    """The script's quote / discontinuation events are handed to a real Transmitter (daily timesteps, latency 45 s)
    and delivered by TradingEnv: reset() on the later of two folds replays everything stamped up to the fold's first
    timestep, then each step delivers one more day. After reset and after every step the whole exchange is compared
    with the model fed with the same events in timestamp order (equal stamps in insertion order)."""
    from tradingenv.env import TradingEnv
    from tradingenv.transmitter import Transmitter
    from tradingenv.spaces import BoxPortfolio
    from tradingenv.contracts import ETF
    violations, probes, faults, log = [], {}, {}, []
    stats = {"ops": 0, "quotes": 0, "queries": 0}
    specs = sc["contracts"]
    contracts = [world.build_contract(s) for s in specs]
    M = Model(specs, contracts)

    def probe(n):
        probes[n] = probes.get(n, 0) + 1

    def violate(k, clause, msg, **sig):
        if not violations:
            violations.append({"clause": clause, "sig": sig, "op": k, "msg": msg})

    evs = [(core.parse_t(op["t"]), j, op) for j, op in enumerate(sc["script"]) if op["op"] in ("quote", "disc")]
    if not evs:
        return {"violations": [], "digest": core.digest([]), "probes": {}, "faults": {}, "stats": stats, "trace": "episode-empty", "nontrivial": False}
    day0 = clock0.replace(hour=0, minute=0, second=0, microsecond=0)
    last = max(t for t, _, _ in evs)
    ndays = (last - day0).days + 2
    grid = [day0 + timedelta(days=d) for d in range(ndays + 1)]
    dummy = ETF("ZZDUMMY")
    tr = Transmitter(timesteps=grid, folds={"a": [grid[0], grid[max(0, ndays // 2 - 1)]], "b": [grid[ndays // 2], grid[-1]]})
    objs = []
    for t, j, op in evs:
        c = contracts[op["k"]]
        objs.append(EventNBBO(t, c, op["bid"], op["ask"]) if op["op"] == "quote" else EventContractDiscontinued(t, c))
    tr.add_events([EventNBBO(g, dummy, 1.0, 1.0) for g in grid] + objs)
    env = TradingEnv(action_space=BoxPortfolio([dummy]), transmitter=tr, latency=45.0)
    ordered = sorted(evs, key=lambda e: (e[0], e[1]))
    applied = 0
    now = [clock0]

    def apply_until(limit):
        nonlocal applied
        while applied < len(ordered) and ordered[applied][0] <= limit:
            t, j, op = ordered[applied]
            sym, lead = M.resolve(op["k"], t)
            mb = M.book(sym)
            if op["op"] == "quote":
                stats["quotes"] += 1
                if mb["alive"]:
                    mb["bid"], mb["ask"] = op["bid"], op["ask"]
                    mb["hist"].append((t, op["bid"], op["ask"]))
                else:
                    probe("revival_attempt")
                    if op.get("late_print"):
                        probe("revival_attempt_stamped_before_the_discontinuation")
                if lead is not None:
                    probe("chain_quote_delivered_in_an_episode")
            else:
                mb["alive"] = False
                mb["bid"] = mb["ask"] = NAN
            applied += 1

    def compare(tag):
        ex = env.exchange
        for j in range(len(specs)):
            sym, lead = M.resolve(j, now[0])
            mb = M.book(sym)
            rb = ex[contracts[j]]
            name = specs[j]["name"] + "->" + sym
            if not (same(rb.bid_price, mb["bid"]) and same(rb.ask_price, mb["ask"])):
                kind = "dead_book_has_price" if not mb["alive"] else ("chain_wrong_book" if lead is not None else "last_quote")
                violate(tag, "book_state", "{} ({}): exchange reports {}:{} but the last quote stamped so far is {}:{} (alive={})".format(
                    name, tag, rb.bid_price, rb.ask_price, mb["bid"], mb["ask"], mb["alive"]), kind=kind, by_string=False)
                return
            h = rb.history
            got = list(zip(h["time"], h["bid_price"], h["ask_price"]))
            if len(got) != len(mb["hist"]) or any(g[0] != w[0] or not same(g[1], w[1]) or not same(g[2], w[2]) for g, w in zip(got, mb["hist"])):
                violate(tag, "history", "{} ({}): history has {} entries {} but the quotes stamped so far, in timestamp order, are {}".format(
                    name, tag, len(got), [str(g[0]) for g in got][:6], [str(w[0]) for w in mb["hist"]][:6]), kind="history")
                return
        log.append([tag, canon({j: [env.exchange[contracts[j]].bid_price, env.exchange[contracts[j]].ask_price] for j in range(len(specs))})])

    cur = [0]
    try:
        env.reset(fold="b")
        k0 = ndays // 2
        now[0] = env.now()
        apply_until(grid[k0])
        compare("reset")
        if any(0 < (t - grid[i]).total_seconds() <= 45 for t, _, _ in evs for i in range(k0) if grid[i] < t < grid[i + 1]):
            probe("replay_with_events_inside_latency_windows")
        for step in range(k0 + 1, len(grid)):
            if violations:
                break
            cur[0] = step
            if sc.get("fail_at") == step - k0:
                # error path: a step with an action outside the space is refused after the quotes of the latency window
                # were delivered; the retry must not deliver them a second time
                try:
                    env.step(np.array([float("nan")]))
                    violate(step, "unexpected_exception", "an action outside the space was accepted", exc="none", site="step")
                    break
                except ValueError:
                    pass
                faults["refused_step_then_retry"] = faults.get("refused_step_then_retry", 0) + 1
                now[0] = env.now()
                apply_until(grid[step - 1] + timedelta(seconds=45))
                compare("refused{}".format(step - k0))
                if violations:
                    break
                probe("refused_step_then_retry")
            obs, reward, done, info = env.step(np.array([0.0]))
            now[0] = env.now()
            apply_until(grid[step])
            compare("step{}".format(step - k0))
            stats["ops"] += 1
            if done:
                break
    except core.HarnessError:
        raise
    except Exception as e:
        site = core.library_site(e)
        if site is None:
            raise
        violate(cur[0], "unexpected_exception", "episode mode: {!r} in {}".format(e, site), exc=core.exc_name(e), site=site)
    probe("events_delivered_by_an_episode")
    return {"violations": violations, "digest": core.digest(log), "probes": probes, "faults": faults, "stats": stats,
            "trace": "episode|{}|{}".format(len(evs), ndays), "nontrivial": stats["quotes"] >= 1}


def _execute(sc, clock0):
    if (sc.get("mode") or "") == "episode":
        return _execute_episode(sc, clock0)
    violations, probes, faults, log, trace = [], {}, {}, [], []
    stats = {"ops": 0, "quotes": 0, "queries": 0}
    specs = sc["contracts"]
    contracts = [world.build_contract(s) for s in specs]
    mode = sc.get("mode") or ("notify" if sc.get("via_notify") else "direct")
    env = None
    if mode == "env":
        # events are dispatched by a real environment (TradingEnv.notify): its clock follows the
        # events, so a chain-keyed quote is filed under the lead contract at the quote's own time
        from tradingenv.env import TradingEnv
        from tradingenv.transmitter import Transmitter
        from tradingenv.spaces import BoxPortfolio
        from tradingenv.contracts import ETF
        dummy = ETF("ZZDUMMY")
        tr = Transmitter(timesteps=[clock0, clock0 + timedelta(days=1000)])
        tr.add_events([EventNBBO(clock0, dummy, 1.0, 1.0), EventNBBO(clock0 + timedelta(days=1000), dummy, 1.0, 1.0)])
        env = TradingEnv(action_space=BoxPortfolio([dummy]), transmitter=tr)
        env.reset()
        ex = env.exchange
    else:
        ex = Exchange()
    M = Model(specs, contracts)
    now = clock0
    last_quoted = None

    def probe(n):
        probes[n] = probes.get(n, 0) + 1

    def violate(k, clause, msg, **sig):
        if not violations:
            violations.append({"clause": clause, "sig": sig, "op": k, "msg": msg})

    def check_book(k_op, key_idx, by_string=False):
        sym, lead = M.resolve(key_idx, now)
        mb = M.book(sym)
        key = sym if by_string else contracts[key_idx]
        rb = ex[key]
        name = specs[key_idx]["name"] + ("->" + sym)
        if not (same(rb.bid_price, mb["bid"]) and same(rb.ask_price, mb["ask"])):
            kind = "dead_book_has_price" if not mb["alive"] else ("chain_wrong_book" if lead is not None else "last_quote")
            violate(k_op, "book_state", "{}: exchange reports {}:{} but the last accepted quote is {}:{} (alive={})".format(
                name, rb.bid_price, rb.ask_price, mb["bid"], mb["ask"], mb["alive"]), kind=kind, by_string=by_string)
            return
        want_mid = (mb["ask"] + mb["bid"]) / 2
        if not same(rb.mid_price, want_mid):
            violate(k_op, "book_state", "{}: mid {} expected {}".format(name, rb.mid_price, want_mid), kind="mid", by_string=by_string)
        h = rb.history
        got_hist = list(zip(h["time"], h["bid_price"], h["ask_price"]))
        if len(got_hist) != len(mb["hist"]) or any(
                g[0] != w[0] or not same(g[1], w[1]) or not same(g[2], w[2]) for g, w in zip(got_hist, mb["hist"])):
            violate(k_op, "history", "{}: history has {} entries, expected the {} accepted quotes in order".format(
                name, len(got_hist), len(mb["hist"])), kind="dead_appended" if not mb["alive"] else "history")
        if rb.is_alive != mb["alive"]:
            violate(k_op, "book_state", "{}: is_alive {} expected {}".format(name, rb.is_alive, mb["alive"]), kind="alive_flag")
        if not mb["alive"]:
            probe("query_dead_book")
        if by_string:
            probe("string_key_query")

    cur = [0]
    try:
        for k, op in enumerate(sc["script"]):
            cur[0] = k
            name = op["op"]
            stats["ops"] += 1
            if name == "quote":
                t = core.parse_t(op["t"])
                c = contracts[op["k"]]
                if env is not None:
                    now = t
                sym, lead = M.resolve(op["k"], now)
                ev = EventNBBO(t, c, op["bid"], op["ask"])
                if env is not None:
                    env.notify(ev)
                    if lead is not None:
                        probe("chain_quote_dispatched_by_environment")
                elif sc["via_notify"]:
                    ev.notify([ex])
                else:
                    ex.process_EventNBBO(ev)
                mb = M.book(sym)
                if mb["alive"]:
                    mb["bid"], mb["ask"] = op["bid"], op["ask"]
                    mb["hist"].append((t, op["bid"], op["ask"]))
                else:
                    probe("revival_attempt")
                    faults["quote_for_dead_book"] = faults.get("quote_for_dead_book", 0) + 1
                if last_quoted is not None and last_quoted != sym:
                    probe("quote_other_key_between")
                last_quoted = sym
                if lead is not None and lead > specs[op["k"]].get("month", 0):
                    probe("chain_key_after_roll")
                if lead is not None and specs[op["k"]].get("listed_order_seed") is not None:
                    probe("quote_through_a_chain_built_from_an_unsorted_list")
                stats["quotes"] += 1
                trace.append("q{}{}{}".format(specs[op["k"]]["kind"][0], "a" if mb["alive"] else "d", lead if lead is not None else ""))
            elif name == "disc":
                t = core.parse_t(op["t"])
                if env is not None:
                    now = t
                sym, lead = M.resolve(op["k"], now)
                ev = EventContractDiscontinued(t, contracts[op["k"]])
                if env is not None:
                    env.notify(ev)
                elif sc["via_notify"]:
                    ev.notify([ex])
                else:
                    ex.process_EventContractDiscontinued(ev)
                mb = M.book(sym)
                mb["alive"] = False
                mb["bid"] = mb["ask"] = NAN
                faults["discontinued"] = faults.get("discontinued", 0) + 1
                trace.append("x{}".format(specs[op["k"]]["kind"][0]))
            elif name == "clock":
                now = core.parse_t(op["t"])
                AbstractContract.now = now
                faults["clock_moved"] = faults.get("clock_moved", 0) + 1
                trace.append("c")
            elif name == "query":
                stats["queries"] += 1
                if op.get("roll_day_motif"):
                    probe("chain_with_intraday_cutoff_looked_up_on_both_sides_of_it")
                keys = op["keys"]
                signs = np.array(op["signs"], dtype=float)
                cs = [contracts[j] for j in keys]
                got_acq = ex.acq_prices(cs, signs)
                got_liq = ex.liq_prices(cs, signs)
                for j, s, ga, gl in zip(keys, op["signs"], got_acq, got_liq):
                    sym, lead = M.resolve(j, now)
                    mb = M.book(sym)
                    mid = (mb["ask"] + mb["bid"]) / 2
                    want_a = mb["ask"] if s > 0 else (mb["bid"] if s < 0 else mid)
                    want_l = mb["bid"] if s > 0 else (mb["ask"] if s < 0 else mid)
                    if not same(float(ga), want_a) or not same(float(gl), want_l):
                        violate(k, "side_selection", "{} sign {}: acq {} liq {} expected {} / {}".format(
                            specs[j]["name"], s, ga, gl, want_a, want_l), kind="sign_" + ("pos" if s > 0 else ("neg" if s < 0 else "zero")))
                arr = {"bid": ex.bid_prices(cs), "ask": ex.ask_prices(cs), "mid": ex.mid_prices(cs), "spread": ex.spreads(cs)}
                for pos_, j in enumerate(keys):
                    sym, lead = M.resolve(j, now)
                    mb = M.book(sym)
                    wantv = {"bid": mb["bid"], "ask": mb["ask"], "mid": (mb["ask"] + mb["bid"]) / 2, "spread": mb["ask"] - mb["bid"]}
                    for name_, vec in arr.items():
                        if not same(float(vec[pos_]), wantv[name_]):
                            violate(k, "book_state", "{}: {}_prices reports {} expected {}".format(specs[j]["name"], name_, vec[pos_], wantv[name_]), kind="array_" + name_, by_string=False)
                trace.append("?")
            # after every operation: every key's book agrees with the model
            for j in range(len(specs)):
                check_book(k, j, by_string=False)
            if name == "query" and op.get("by_string"):
                for j in op["keys"]:
                    check_book(k, j, by_string=True)
            log.append([k, name, canon({j: [ex[contracts[j]].bid_price, ex[contracts[j]].ask_price, len(ex[contracts[j]].history["time"])] for j in range(len(specs))})])
            if violations:
                break
    except core.HarnessError:
        raise
    except Exception as e:
        # the library failed on a valid call (not the harness): a finding, not a harness error
        site = core.library_site(e)
        if site is None:
            raise
        violate(cur[0], "unexpected_exception", "op {} ({}) raised {!r} in {}".format(cur[0], sc["script"][cur[0]]["op"], e, site), exc=core.exc_name(e), site=site)
    return {"violations": violations, "digest": core.digest(log), "probes": probes, "faults": faults, "stats": stats,
            "trace": "".join(trace), "nontrivial": stats["quotes"] >= 1 and len(probes) >= 1}


def describe(scenario):
    return {"contracts": scenario["contracts"], "via_notify": scenario["via_notify"], "mode": scenario.get("mode"), "script_len": len(scenario["script"]),
            "script_head": scenario["script"][:25]}


def shrink_paths(scenario):
    return [("script",)]
