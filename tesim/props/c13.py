"""C13 - missing prices fail loudly; a rebalance is all-or-nothing."""
from tesim import acct, gen_acct

PROP = "C13"
PLAN = {"quick": 8000, "thorough": 400000}
TIMEOUT = 20
CHUNK = 250
RULE = ("seeded swarm of account histories into which quote faults are injected at random points (bid-only, ask-only, "
        "both sides NaN, never quoted, contract discontinued, late quotes for a dead book) on contracts held long / short / "
        "flat and targeted / not targeted by the next multi-trade rebalance; three-valued model (must fail / must succeed / "
        "either) of which quotes each valuation and rebalance needs; failing rebalances must leave positions and the track "
        "record unchanged; after a repairing quote the ledger identity must resume. Non-trivial: >=1 fault fired on a held "
        "or targeted contract and >=1 trade; distinct abstract traces among those")
ASSUMPTIONS = [
    "a rebalance whose only missing quote is the side a trade does not execute on may fail or succeed (Trade rejects it today); if it fails it must be atomic",
    "a trade filtered out by the threshold or below one lot does not need its quote",
    "cash may change by interest of the elapsed period in a failed rebalance (explicitly allowed by the property)",
]
COMPONENTS = {"real": ["Exchange", "LimitOrderBook", "Broker", "Rebalancing", "Trade", "contracts"],
              "harness": ["user-defined AbstractContract subclasses", "Fraction ledger", "three-valued need model"], "stub": []}
PROBE_FLOORS = {"valuation_with_missing_liq_quote": 100, "rebalance_must_fail": 100, "rebalance_either": 10,
                "failed_rebalance_left_positions_unchanged": 100, "env_step_failed_atomically": 40,
                "env_step_with_flat_contract_unquoted": 40, "env_episode_starts_after_discontinuation_in_latency_window": 4, "env_future_expires_inside_the_episode": 18, "env_built_under_a_clock_past_the_expiry": 10}

PROFILE = {
    "oracles": ["c13", "c01"],
    "mix": {"quote": 2, "trade": 2, "rebal": 3, "mark": 0.3, "value": 1.5, "advance": 0.1},
    "always": ("rebal", "value"),
    "p_margined": 0.5, "p_observe_every": 0.4, "p_frictionless": 0.3, "p_unquoted": 0.15,
    "p_threshold": 0.3, "p_whole_lots": 0.15,
    "fault_rates": [0.0, 0.1, 0.2, 0.35],
    "motifs": [(0.35, gen_acct.motif_missing_then_repair), (0.2, gen_acct.motif_discontinue_held)],
}


EPI_PROFILE = {
    "n_min": 4, "n_max": 10, "c_min": 2, "c_max": 3, "p_bar": 1.0, "extras_max": 3, "extra_kinds": ["nbbo", "custom"],
    "p_sparse_grid": 0.0, "p_folds": 0.0, "p_markov": 0.0, "p_warmup": 0.0, "delays": [0, 0, 1],
    "contract_kinds": ["ETF", "spot", "margined", "future"], "p_with_cash": 0.0, "p_rate": 0.2, "spaces": ["box"],
    "box_bounds": [(-1.0, 1.0)], "latencies": [0, 0, 10 ** 6], "fixed_fees": [0, 0.01],
}
NAN = float("nan")


def generate_epi(rng, i):
    """Episode-level clause: quote faults (NaN side, both sides, discontinuation) strike a held / targeted /
    flat contract at a random timestep of a running environment; later bars may repair it."""
    from tesim import gen_epi, core
    expiry_arm = rng.random() < 0.12
    pf = EPI_PROFILE
    if expiry_arm:
        # a future that expires in the middle of the episode (ES March 2019, daily steps from 8 March): the
        # environment schedules its discontinuation itself - also when the process-wide contract clock was left
        # far in the future by whatever ran before the environment was built
        pf = dict(EPI_PROFILE, t0s=["2019-03-08T00:00:00"], grid_styles=["daily"], n_min=9, n_max=12, latencies=[0], p_rate=0.0)
    env = gen_epi.gen_env(rng, pf)
    grid = env["grid"]
    nc = len(env["contracts"])
    victim = rng.randrange(nc)
    k0 = rng.randint(1, len(grid) - 1)
    kind = rng.choice(["bid", "ask", "both", "disc"])
    if expiry_arm:
        kind = "expiry"
        env["contracts"][victim] = {"name": "ESX", "kind": "future", "cls": "ES", "year": 2019, "month": 3}
        env["cash"] = 1e7
        for e in env["events"]:
            if e["type"] == "nbbo" and e["c"] == victim:
                f = 2800.0 / ((e["bid"] + e["ask"]) / 2)
                e["bid"], e["ask"] = e["bid"] * f, e["ask"] * f
    span = rng.randint(1, 3)
    fold = None
    if kind == "expiry":
        pass
    elif kind == "disc":
        t_disc = grid[k0]
        if env["latency_us"] > 0 and rng.random() < 0.5:
            # the discontinuation lands inside the latency window after the previous timestep; half of the time the
            # episode starts right there (a later fold), so the event belongs to the history replayed at reset
            from datetime import timedelta
            t_disc = core.iso(core.parse_t(grid[k0 - 1]) + timedelta(microseconds=max(1, env["latency_us"] // 2)))
            if rng.random() < 0.5 and k0 < len(grid) - 1:
                env["folds"] = {"a": [grid[0], grid[k0 - 1]], "b": [grid[k0], grid[-1]]}
                fold = "b"
        env["events"].append({"t": t_disc, "type": "disc", "c": victim, "id": 9000})
    else:
        for e in env["events"]:
            if e["type"] == "nbbo" and e["c"] == victim and grid[k0] <= e["t"] < (grid[k0 + span] if k0 + span < len(grid) else "9999"):
                if kind in ("bid", "both"):
                    e["bid"] = NAN
                if kind in ("ask", "both"):
                    e["ask"] = NAN
    script = gen_epi.full_episode_script(rng, env, fold=fold)
    hold = rng.choice(["long", "short", "flat", "random"])
    for op in script:
        if op["op"] == "step" and hold != "random":
            a = gen_epi.gen_action(rng, env)
            a[victim] = {"long": 0.3, "short": -0.3, "flat": 0.0}[hold]
            op["action"] = a
    again = False
    if not expiry_arm and rng.random() < 0.35:
        # the same episode once more on the same environment (possibly after abandoning the first one mid-way): what
        # the first run consumed - latent batches, the victim's missing quote - is there again
        first = script if rng.random() < 0.6 else script[:rng.randint(2, len(script))]
        script = first + [dict(op) for op in script]
        again = True
    if expiry_arm and rng.random() < 0.5:
        env["prior_env"] = True         # the transmitter served another environment (other contracts) before this one was built
    clock0 = "1999-01-01T00:00:00"
    if expiry_arm and rng.random() < 0.6:
        clock0 = "2019-06-03T00:00:00"          # a stale clock, past the expiry, when the environment is built
    return {"kind": "epi", "envs": [env], "clock0": clock0, "script": script, "prng": rng.randrange(2 ** 31),
            "meta": {"victim": victim, "k0": k0, "fault": kind, "hold": hold, "fold": fold, "stale_clock": clock0 != "1999-01-01T00:00:00", "again": again}}


def execute_epi(scenario):
    from tesim import epi, epicheck, core
    sim = epi.run_scenario(scenario)
    violations, probes, violate, probe = epicheck.mk_violation_sink()
    h = sim.handles[0]
    meta = scenario["meta"]
    sim.fault("quote_fault_" + meta["fault"])
    trades = 0

    def missing_liq(hold, books):
        out = []
        for sym, q in hold.items():
            if sym == "USD" or q == 0:
                continue
            bid, ask = books.get(sym, (NAN, NAN))
            px = bid if q > 0 else ask
            if px != px:
                out.append(sym)
        return out

    from tesim import gen_epi
    from tesim.epimodel import Delivery
    env_spec = scenario["envs"][0]
    dmodel = Delivery(env_spec, gen_epi.auto_disc(env_spec))

    def merged(lib_books, model_books):
        """What is quoted according to the scenario (the delivery model), falling back on the library's book
        for symbols the model has not seen: a quote the library shows for a contract the scenario says is
        discontinued or unquoted does not count."""
        out = dict(lib_books)
        for sym, b in (model_books or {}).items():
            if sym != "__rate__":
                out[sym] = b
        return out

    for ei, ep in enumerate(h.episodes):
        if ep["failed"]:
            break
        steps_model = epicheck.visited_steps(dmodel, env_spec, ep)
        if ei > 0:
            probe("env_episode_repeated_on_the_same_environment")
            if env_spec["latency_us"] > 0 and meta.get("fault") in ("disc", "both", "bid", "ask"):
                probe("env_repeated_episode_with_latency_and_quote_fault")
        if meta.get("fold"):
            probe("env_episode_starts_after_discontinuation_in_latency_window")
        if meta.get("fault") == "expiry":
            probe("env_future_expires_inside_the_episode")
            if meta.get("stale_clock"):
                probe("env_built_under_a_clock_past_the_expiry")
            if env_spec.get("prior_env"):
                probe("env_second_on_its_transmitter")
        for st in ep["steps"]:
            if st["done_before"]:
                break
            k = st["k"]
            ex = [r for r in sim.sink.records if r["kind"] == "EXEC" and st["seq"] < r["seq"] < st["end_seq"]]
            if steps_model is not None and k < len(steps_model) - 1:
                for r in ex:
                    r["books"] = merged(r["books"], epicheck.expected_books(dmodel, h, steps_model, k))
                if "books" in st:
                    st["books"] = merged(st["books"], epicheck.expected_books(dmodel, h, steps_model, k, at_step_end=True))
            noncash = lambda d: {a: b for a, b in (d or {}).items() if a != "USD"}
            if st.get("exc") is not None:
                if st["exc"] == "EndOfEpisodeError":
                    break
                # a loud failure. If it is the rebalance that failed, it must have been atomic; if the rebalance completed
                # and the valuation after the step's later events failed, a held position must really lack its quote
                failed_reb = [r for r in ex if r.get("n_rec_after") == r["n_rec_before"]]
                if failed_reb or not ex:
                    bad = [r for r in failed_reb if noncash(r.get("hold_after")) != noncash(r["hold_before"])]
                    if bad or (not ex and (noncash(st["hold"]) != noncash(st["hold_before"]) or st["n_rec"] != st["n_rec_before"])):
                        violate("not_atomic", "step {} raised {} ({}) inside its rebalance but positions changed {} -> {}".format(
                            k, st["exc"], st.get("msg"), noncash(st["hold_before"]), noncash(st["hold"])), op=k, exc=st["exc"])
                    else:
                        probe("env_step_failed_atomically")
                else:
                    if not missing_liq(st["hold"], st["books"]):
                        violate("unexpected_exception", "step {} raised {} ({}) after a completed rebalance although every held position has a liquidation quote".format(
                            k, st["exc"], st.get("msg")), op=k, exc=st["exc"], where="step")
                    else:
                        probe("env_valuation_failed_loudly_after_trade")
                break       # the environment is mid-step after an exception: the episode is abandoned
            for r in ex:
                miss = missing_liq(r["hold_before"], r["books"])
                if miss:
                    violate("rebalance_silent", "step {} rebalanced although the held {} have no liquidation quote at execution time".format(k, miss), op=k, kind="missing_quote")
                trades += len(r.get("rebalancing", {}).get("trades", []))
            if violations:
                break
            miss = missing_liq(st["hold"], st["books"])
            if miss:
                violate("valuation_silent", "step {} returned (reward {}) although the held {} have no liquidation quote after its events".format(
                    k, st.get("reward"), miss), op=k, where="reward")
                break
            if isinstance(st["nlv"], str):
                violate("valuation_silent", "valuation raised {} although every held position has a quote".format(st["nlv"]), op=k, where="nlv_spurious")
                break
            if any(b[0] != b[0] or b[1] != b[1] for s_, b in st["books"].items() if s_ != "__rate__"):
                probe("env_step_with_flat_contract_unquoted")
        if violations:
            break
    trace = "epi|{}|{}|k{}|{}".format(meta["fault"], meta["hold"], meta["k0"], "".join(c["kind"][0] for c in scenario["envs"][0]["contracts"]))
    sim.stats["trades"] = trades
    return {"violations": violations, "digest": core.digest(sim.log_for_digest()), "probes": probes, "faults": sim.faults,
            "stats": sim.stats, "trace": trace, "nontrivial": trades >= 1 and len(probes) >= 1}


def generate(rng, i):
    if i % 5 == 4:
        return generate_epi(rng, i)
    return gen_acct.generate(rng, PROFILE)


def execute(scenario):
    if scenario.get("kind") == "epi":
        return execute_epi(scenario)
    return acct.execute(scenario, PROP)


def describe(scenario):
    if scenario.get("kind") == "epi":
        from tesim import gen_epi
        d = gen_epi.describe(scenario)
        d["meta"] = scenario.get("meta")
        return d
    return gen_acct.describe(scenario)


def shrink_paths(scenario):
    return [("script",)]


from tesim.props.c01 import simplify as _simplify_acct  # noqa: E402


def simplify(scenario):
    if scenario.get("kind") == "epi":
        return
    for c in _simplify_acct(scenario):
        yield c


def _wrap_driver():
    from tesim import gen_epi
    return gen_epi.with_backtest_driver(generate_epi, 0.2)


generate_epi = _wrap_driver()
