"""C13 - missing prices fail loudly; a rebalance is all-or-nothing."""
from tesim import acct, gen_acct

PROP = "C13"
PLAN = {"quick": 8000, "thorough": 400000}
TIMEOUT = 20
CHUNK = 250
RULE = ("seeded swarm of account histories into which quote faults are injected at random points (bid-only, ask-only, "
        "both sides NaN, never quoted, contract discontinued, late quotes for a dead book) on contracts held long / short / "
        "flat and targeted / not targeted by the next multi-trade rebalance; three-valued model (must fail / must succeed / "
        "either) of which quotes each valuation and rebalance needs; failing rebalances must leave positions and the track "
        "record unchanged; after a repairing quote the ledger identity must resume. Non-trivial: >=1 fault fired on a held "
        "or targeted contract and >=1 trade; distinct abstract traces among those")
ASSUMPTIONS = [
    "a rebalance whose only missing quote is the side a trade does not execute on may fail or succeed (Trade rejects it today); if it fails it must be atomic",
    "a trade filtered out by the threshold or below one lot does not need its quote",
    "cash may change by interest of the elapsed period in a failed rebalance (explicitly allowed by the property)",
]
COMPONENTS = {"real": ["Exchange", "LimitOrderBook", "Broker", "Rebalancing", "Trade", "contracts"],
              "harness": ["user-defined AbstractContract subclasses", "Fraction ledger", "three-valued need model"], "stub": []}
PROBE_FLOORS = {"valuation_with_missing_liq_quote": 100, "rebalance_must_fail": 100, "rebalance_either": 10,
                "failed_rebalance_left_positions_unchanged": 100}

PROFILE = {
    "oracles": ["c13", "c01"],
    "mix": {"quote": 2, "trade": 2, "rebal": 3, "mark": 0.3, "value": 1.5, "advance": 0.1},
    "always": ("rebal", "value"),
    "p_margined": 0.5, "p_observe_every": 0.4, "p_frictionless": 0.3, "p_unquoted": 0.15,
    "p_threshold": 0.3, "p_whole_lots": 0.15,
    "fault_rates": [0.0, 0.1, 0.2, 0.35],
    "motifs": [(0.35, gen_acct.motif_missing_then_repair), (0.2, gen_acct.motif_discontinue_held)],
}


def generate(rng, i):
    return gen_acct.generate(rng, PROFILE)


def execute(scenario):
    return acct.execute(scenario, PROP)


def describe(scenario):
    return gen_acct.describe(scenario)


def shrink_paths(scenario):
    return [("script",)]


from tesim.props.c01 import simplify  # noqa: E402,F401
