"""C11 - futures chains always trade the live lead contract and roll before expiry."""
import copy
from datetime import datetime, timedelta
from fractions import Fraction as F

from tesim import core, epi, gen_epi, epicheck, world
from tesim.epimodel import Delivery, lead_index

PROP = "C11"
PLAN = {"quick": 800, "thorough": 60000}
TIMEOUT = 90
CHUNK = 25
CLASSES = ["ES", "NK", "ZN", "ZB", "ZF", "ZT", "ZQ", "VX", "UN"]
ROLL_DAYS = {"ES": 8, "NK": 14, "VX": 2, "ZN": 30, "ZB": 30, "ZF": 30, "ZT": 30, "ZQ": 30, "UN": 5}
PRICE = {"ES": 2500.0, "NK": 20000.0, "VX": 15.0, "ZN": 120.0, "ZB": 140.0, "ZF": 115.0, "ZT": 105.0, "ZQ": 98.0, "UN": 60.0}
RULE = ("seeded episodes over chains of every built-in futures class (ES, NK, ZN, ZB, ZF, ZT, ZQ, VX) built from spans and from "
        "explicit contract lists, 2-8 contracts, month offsets 0-2; grids daily / multi-day but shorter than the roll window / "
        "intraday around the roll, on the exact last-trading instants or off them; quotes for every live member, targets of "
        "either sign, spreads, thresholds, quote gaps for far members, foreign writes to the process-wide clock between calls. "
        "At every execution and after every step: the chain resolves to the listed contract with the earliest last-trading "
        "instant strictly later than now (+offset), monotonically; the chain key addresses that contract's book; after a "
        "rebalance every other member is flat and the lead holds the target (subject to the threshold); nothing is held at or "
        "after its expiry when a step fell in [last trading, expiry). Non-trivial: >=1 roll executed and >=1 probe; distinct "
        "= (class, span, offset, grid style, time of day, rolls, sides, threshold)")
ASSUMPTIONS = [
    "last-trading and expiry instants of the listed contracts are read from the library's calendar classes as data (their correctness is C19)",
    "every instant used lies inside the chain's span (+offset); grids have gaps shorter than the roll window",
    "a re-establishing trade below the threshold is legitimately skipped (C12) and not flagged",
]
COMPONENTS = {"real": ["FutureChain", "Future subclasses", "Exchange.__getitem__", "_Allocation", "Rebalancing", "Broker", "TradingEnv", "Transmitter"],
              "harness": ["calendar-free lead model", "independent ledger"], "stub": []}
PROBE_FLOORS = {"resolution_refused_beyond_the_listed_contracts": 300, "roll_executed": 122, "step_exactly_on_last_trading_instant": 50, "short_position_rolled": 55,
                "month_offset_positive": 40, "roll_with_spread": 63, "expiry_passed_flat": 100, "explicit_contract_list": 31,
                "foreign_clock_write": 31, "single_event_days_with_roll": 25, "roll_of_position_below_threshold": 25, "roll_of_position_worth_less_than_the_fee": 5, "quotes_addressed_to_the_chain_across_a_roll": 15, "roll_of_position_below_1e-6_contracts": 8}


def month_add(y, m, k):
    m0 = (y * 12 + (m - 1)) + k
    return m0 // 12, m0 % 12 + 1


def generate(rng, i, force=None):
    cls = rng.choice(CLASSES)
    nmem = rng.randint(2, 8)
    offset = rng.choice([0, 0, 0, 1, 2])
    y0 = rng.choice([2005, 2012, 2018, 2019, 2024])
    if force:
        cls = force["cls"]
    if cls in ("VX", "UN"):
        step_m = 1
        m0 = rng.randint(1, 12)
    else:
        step_m = 3
        m0 = rng.choice([3, 6, 9, 12])
    if force and force.get("y0m0"):
        y0, m0 = force["y0m0"]
    members = [month_add(y0, m0, k * step_m) for k in range(nmem + offset + 1)]
    explicit = rng.random() < 0.3
    if explicit:
        spec = {"name": "CH", "kind": "chain", "cls": cls, "members": [list(x) for x in members], "month": offset}
        if rng.random() < 0.5:
            spec["members"] = spec["members"][::-1]        # constructor must sort them
    else:
        ys, ms = members[0]
        ye, me = members[-1]
        start = "{:04d}-{:02d}-01".format(ys, ms)
        _, dim = month_add(ye, me, 0)
        import calendar
        end = "{:04d}-{:02d}-{:02d}".format(ye, me, calendar.monthrange(ye, me)[1])
        spec = {"name": "CH", "kind": "chain", "cls": cls, "start": start, "end": end, "month": offset}
    try:
        chain = world.build_contract(spec)
    except Exception:
        # the chain cannot even be built: let the executor report that against the real code
        return {"kind": "epi", "construct_only": True, "envs": [{"contracts": [spec], "grid": ["2019-01-01T00:00:00"], "events": [], "space": {"type": "box"}}],
                "clock0": "{:04d}-{:02d}-01T00:00:00".format(*members[0]), "script": [], "meta": {"cls": cls, "offset": offset, "explicit": explicit}}
    mem = chain.contracts
    ltd = [to_dt(f.last_trading_date) for f in mem]
    exp = [to_dt(f.expiry) for f in mem]
    # the scenario is laid out on the calendar order of the members (data); events refer to members by their
    # position in the library's list, whatever order that list is in
    lib_idx = sorted(range(len(mem)), key=lambda j: ltd[j])
    ltd = [ltd[j] for j in lib_idx]
    exp = [exp[j] for j in lib_idx]
    usable = len(mem) - offset        # lead index must stay < len(mem)
    if usable < 2:
        return generate_single(rng, i + 1, force)
    nrolls = rng.randint(1, min(3, usable - 1))
    tod = rng.choice([0, 0, 10 * 3600, 23 * 3600 + 59 * 60])
    # roll window as listed (data): the shortest distance between a member's last-trading instant and its expiry
    roll = min(ROLL_DAYS[cls], min((e - l).days for l, e in zip(ltd, exp)))
    style = rng.choice(["daily", "daily", "multi", "intraday"])
    if cls == "VX":
        style = rng.choice(["daily", "intraday"])
    if cls == "UN":
        style = rng.choice(["daily", "intraday", "intraday"])      # the cut-off is at noon: steps on both sides of it on the roll day
    t = ltd[0] - timedelta(days=rng.randint(2, 12)) + timedelta(seconds=tod)
    t_end = ltd[nrolls - 1] + timedelta(days=rng.randint(1, 6))
    t_end = min(t_end, ltd[usable - 1] - timedelta(days=1))
    grid = []
    while t <= t_end and len(grid) < 160:
        grid.append(t)
        if style == "daily":
            t += timedelta(days=1)
        elif style == "multi":
            t += timedelta(days=rng.randint(1, max(1, roll - 1)))
        else:
            # intraday around each last-trading instant, daily otherwise
            near = min(abs((t - x).total_seconds()) for x in ltd[:nrolls])
            t += timedelta(minutes=rng.choice([30, 60, 240])) if near < 86400 else timedelta(days=1)
    if style == "intraday" and tod == 0:
        # make sure the exact instants are on the grid
        for x in ltd[:nrolls]:
            if grid[0] <= x <= grid[-1] and x not in grid:
                grid.append(x)
        grid = sorted(set(grid))
    if len(grid) < 3:
        return generate_single(rng, i + 1, force)
    spread = rng.choice([0, 0, 0.0005, 0.002])
    base = PRICE[cls]
    events = []
    px = [base * (1 + 0.002 * j) for j in range(len(mem))]
    two = rng.random() < 0.3
    # 'lead_only': a single quote per timestep (the contract the chain trades; on a roll step also the one it
    # traded before), so that on daily grids every event is the first - and only - event of its date
    lead_only = rng.random() < 0.3
    if lead_only:
        two = False
    # the traded contract's quotes are addressed to the chain itself (a continuous front-month price column)
    chain_keyed = rng.random() < 0.25
    etf_px = 100.0
    prev_traded = None
    for g in grid:
        li = lead_index(ltd, g, 0)
        traded = li + offset if li is not None else None
        for j in range(len(mem)):
            px[j] *= 1 + rng.uniform(-0.01, 0.01)
            if g >= exp[j]:
                continue
            if lead_only and j not in (traded, prev_traded):
                continue
            far = li is not None and j >= li + offset + 2
            if far and rng.random() < 0.2:
                continue            # F1: quote gap for a far member
            events.append({"t": core.iso(g), "type": "nbbo", "c": [0, "chain"] if (chain_keyed and j == traded) else [0, lib_idx[j]],
                           "bid": px[j] * (1 - spread / 2), "ask": px[j] * (1 + spread / 2), "id": len(events)})
        prev_traded = traded
        if two:
            etf_px *= 1 + rng.uniform(-0.01, 0.01)
            events.append({"t": core.iso(g), "type": "nbbo", "c": 1, "bid": etf_px, "ask": etf_px, "id": len(events)})
    specs = [spec] + ([{"name": "E1", "kind": "ETF"}] if two else [])
    mingap = min((b - a).total_seconds() for a, b in zip(grid, grid[1:]))
    lat_us = rng.choice([0, 0, 0, 10 ** 6, 120 * 10 ** 6]) if mingap > 130 else 0
    if lat_us and not lead_only:
        # quotes arriving inside the latency window (between decision and execution); with decisions at 23:59
        # and a two-minute latency the window crosses midnight, i.e. possibly a last-trading instant
        lat = timedelta(microseconds=lat_us)
        for g in grid[:-1]:
            if rng.random() < 0.6:
                t2 = g + (lat if rng.random() < 0.5 else lat / 2)
                for j in range(len(mem)):
                    if t2 < exp[j]:
                        events.append({"t": core.iso(t2), "type": "nbbo", "c": [0, lib_idx[j]], "bid": px[j] * (1 - spread / 2), "ask": px[j] * (1 + spread / 2), "id": len(events)})
    settlement = False
    if tod == 0 and lat_us == 0 and mingap >= 86400 and not chain_keyed and rng.random() < 0.25:
        # settlement prices: every quote is stamped eight hours before the decision time it belongs to, and the last
        # event of each timestep is a calendar event (no quote) stamped at the decision time itself - possibly the
        # exact last-trading instant of the lead, which lies between the latest quote and the decision (quotes addressed
        # to the chain itself are left out here: they are filed under the lead at their own, earlier, stamp)
        settlement = True
        for e in events:
            e["t"] = core.iso(core.parse_t(e["t"]) - timedelta(hours=8))
        for g in grid:
            events.append({"t": core.iso(g), "type": "custom", "cls": "EvA", "tag": len(events), "id": len(events)})
    env = {
        "contracts": specs, "grid": [core.iso(g) for g in grid], "grid_input": list(range(len(grid))), "events": events,
        "latency_us": lat_us, "delay": rng.choice([0, 0, 1]), "reward": {"cls": "RewardSimpleReturn"},
        "fees": {"fixed": 0, "prop": rng.choice([0, 1e-5]), "markup": 0.0}, "cash": 1e8,
        "space": {"type": "box", "low": -1.0, "high": 1.0, "as_weights": True, "fractional": True, "margin": rng.choice([0.0, 0.0, 0.02, 0.05, 0.125])},
        "folds": None, "markov": False, "warmup_s": None, "episode_length": None, "sampling_span": None,
        "ts_type": rng.choice(["datetime", "timestamp"]), "state": {"type": "rec", "feature": False, "k": 2},
    }
    small = rng.random() < 0.12
    if small:
        # a small account paying a fixed fee per trade, with a position trimmed to less than that fee before the roll:
        # closing the old lead still has to happen (costs are no reason to stay in a contract that stops trading)
        env["cash"] = 1000.0
        env["fees"]["fixed"] = 1.0
        env["space"]["margin"] = rng.choice([0.05, 0.125])
    tiny = (not small) and rng.random() < 0.1
    if tiny:
        # a 100-unit account whose chain position is a few 1e-7 contracts: above the broker's rounding threshold,
        # so it is a position like any other and has to be closed when the chain rolls
        env["cash"] = 100.0
        env["fees"]["prop"] = 0
        env["space"]["margin"] = 0.0
        unit = base * world.contract_params(spec)[0] / 100.0       # weight of one contract
    script = [{"op": "reset", "env": 0, "fold": None, "np_seed": rng.randrange(2 ** 31)}]
    side = rng.choice([1, 1, -1])
    w = side * rng.choice([0.3, 0.5, 0.8])
    if tiny:
        w = side * rng.choice([3e-7, 5e-7, 8e-7]) * unit
    p_foreign = rng.choice([0.0, 0.0, 0.15])
    for k in range(len(grid) - 1):
        r = rng.random()
        if r < 0.1 and tiny:
            w = rng.choice([1, -1]) * rng.choice([3e-7, 5e-7, 8e-7]) * unit
        elif r < 0.1:
            w = rng.choice([1, -1]) * rng.choice([0.3, 0.5, 0.8])
        elif r < 0.15:
            w = 0.0
        elif r < 0.3 and env["space"]["margin"] > 0:
            # a position trimmed to less than the rebalancing threshold: when the chain rolls, closing the
            # old lead is a liquidation (exempt from the threshold) while opening the new one is below it
            w = rng.choice([1, -1]) * env["space"]["margin"] * rng.choice([0.3, 0.6, 0.9])
            if small:
                w = rng.choice([1, -1]) * rng.choice([0.0005, 0.0008])      # worth less than the fixed fee
        a = [w] + ([rng.choice([0.0, 0.1])] if two else [])
        if rng.random() < p_foreign:
            # F7: somebody else moves the shared clock (to an instant inside the span)
            script.append({"op": "clock", "t": core.iso(rng.choice(grid))})
        script.append({"op": "step", "env": 0, "action": a})
    return {"kind": "epi", "envs": [env], "clock0": core.iso(grid[0]), "script": script, "prng": rng.randrange(2 ** 31),
            "meta": {"cls": cls, "offset": offset, "style": style, "tod": tod, "explicit": explicit, "nmem": len(mem), "y0m0": [y0, m0], "lead_only": lead_only, "small": small, "chain_keyed": chain_keyed, "tiny": tiny, "settlement": settlement}}


def to_dt(x):
    return x.to_pydatetime() if hasattr(x, "to_pydatetime") else x


def execute(scenario):
    if scenario.get("construct_only"):
        spec = scenario["envs"][0]["contracts"][0]
        v = []
        with core.sim_context(clock0=core.parse_t(scenario["clock0"])):
            try:
                world.build_contract(spec)
            except Exception as e:
                v.append({"clause": "chain_construction", "sig": {"cls": spec["cls"], "exc": core.exc_name(e)}, "op": None,
                          "msg": "a {} chain {} cannot be built: {!r}".format(spec["cls"], {k: spec[k] for k in spec if k != "name"}, e)})
        return {"violations": v, "digest": core.digest([str(v)]), "probes": {}, "faults": {}, "stats": {"ops": 0}, "trace": "construct", "nontrivial": False}
    sim = epi.run_scenario(scenario)
    env_spec = scenario["envs"][0]
    violations, probes, violate, probe = epicheck.mk_violation_sink()
    h = sim.handles[0]
    chain = h.contracts[0]
    spec = env_spec["contracts"][0]
    offset = spec.get("month", 0)
    mem = chain.contracts
    syms = [f.symbol for f in mem]
    ltd = [to_dt(f.last_trading_date) for f in mem]
    exp = [to_dt(f.expiry) for f in mem]
    mult, _, mreq = world.contract_params(spec)
    thr = env_spec["space"].get("margin", 0.0)
    delay = env_spec.get("delay", 0)
    recs = [r for r in sim.sink.records if r.get("env") == 0]
    if any(ltd[j] >= ltd[j + 1] for j in range(len(ltd) - 1)):
        violate("chain_order", "chain members are not listed in increasing last-trading order: {}".format(syms), kind="order")
        return {"violations": violations, "digest": core.digest(sim.log_for_digest()), "probes": probes, "faults": sim.faults,
                "stats": sim.stats, "trace": "unordered", "nontrivial": False}
    rolls = 0
    last_lead = None
    exec_in_window = set()
    sides = set()

    def model_lead(now):
        j = lead_index(ltd, to_dt(now), offset)
        return j

    def check_resolution(info, now, where, op):
        j = model_lead(now)
        if j is None or j >= len(mem):
            return None
        want = syms[j]
        for key in ("lead", "lead_now"):
            if info.get(key) != want:
                violate("lead_resolution", "{}: at {} the chain resolves ({}) to {} but the listed contract with the earliest last-trading instant strictly later is {} (last trading {})".format(
                    where, now, key, info.get(key), want, ltd[j]), op=op, kind="stale" if info.get(key) in syms and syms.index(info.get(key)) < j else "other", via=key)
                return j
        if to_dt(now) >= ltd[j]:
            violate("lead_resolution", "{}: resolved contract {} is past its last-trading instant {} at {}".format(where, want, ltd[j], now), op=op, kind="past_ltd", via="lead")
        return j

    for ep in h.episodes:
        if ep["failed"]:
            violate("unexpected_exception", "reset raised {}: {}".format(ep["reset"]["exc"], ep["reset"].get("msg")), exc=ep["reset"]["exc"], where="reset")
            break
        acts = [op["action"] for op in scenario["script"] if op["op"] == "step"]
        last_lead = None            # a new episode starts wherever its first timestep lies (possibly before the last roll)
        exec_in_window = set()
        if ep is not h.episodes[0]:
            probe("second_episode_starts_before_the_rolls_of_the_first")
        for st in ep["steps"]:
            if st["done_before"]:
                break
            k = st["k"]
            if st.get("exc") is not None:
                violate("unexpected_exception", "step {} raised {}: {} [{}]".format(k, st["exc"], st.get("msg"), st.get("site")), op=k,
                        exc=st["exc"], where="step", site=st.get("site"))
                break
            ex = [r for r in recs if r["kind"] == "EXEC" and st["seq"] < r["seq"] < st["end_seq"]]
            if len(ex) != 1:
                violate("one_execution_per_step", "step {} executed {} rebalances".format(k, len(ex)), op=k, kind="count")
                break
            r = ex[0]
            now = r["env_now"]
            j = check_resolution(r["chains"]["CH"], now, "execution of step {}".format(k), k)
            if violations:
                break
            if j is None:
                continue
            if to_dt(now) in ltd:
                probe("step_exactly_on_last_trading_instant")
                if scenario["meta"].get("settlement"):
                    probe("last_trading_instant_between_the_latest_quote_and_the_decision")
            if model_lead(st["hold_before"] and r["env_now"]) is not None and st.get("k") is not None:
                # did the lead change between the decision (start of the step) and the execution?
                prev_now = ep["steps"][k - 1]["now"] if k > 0 else ep["reset"]["now"]
                if model_lead(prev_now) != j:
                    pass
            if env_spec["latency_us"] and to_dt(now) > to_dt(ep["steps"][k - 1]["now"] if k > 0 else ep["reset"]["now"]) and \
                    model_lead(ep["steps"][k - 1]["now"] if k > 0 else ep["reset"]["now"]) != j:
                probe("lead_changes_inside_latency_window")
            # the chain key addresses the lead's book
            bk = r["chains"]["CH"].get("book")
            wantb = r["books"].get(syms[j])
            if isinstance(bk, str) or wantb is None or not (epicheck.same(bk[0], wantb[0]) and epicheck.same(bk[1], wantb[1])):
                violate("chain_book", "step {}: Exchange[chain] is {} but the book of the lead {} is {}".format(k, bk, syms[j], wantb), op=k, kind="book")
                break
            if last_lead is not None and j < last_lead:
                violate("lead_resolution", "step {}: lead index moved backwards {} -> {}".format(k, last_lead, j), op=k, kind="backwards", via="lead")
                break
            for jj in range(len(mem)):
                if ltd[jj] <= to_dt(now) < exp[jj]:
                    exec_in_window.add(jj)
            hold = r.get("hold_after") or {}
            reb = r["rebalancing"]
            src = k - delay
            w = (acts[src][0] if src >= 0 else 0.0)
            # every other member of the chain is flat after a rebalance
            for jj, s in enumerate(syms):
                if jj != j and hold.get(s, 0.0) != 0:
                    violate("other_member_held", "step {} at {}: after the rebalance {} still holds {} while the lead is {}".format(
                        k, now, s, hold.get(s), syms[j]), op=k, kind="old_lead" if jj < j else "far_member")
                    break
            if violations:
                break
            # the lead holds the target, subject to the threshold rule
            pos = hold.get(syms[j], 0.0)
            bid, ask = r["books"][syms[j]]
            nlv_pre = reb["pre"]["nlv"] if reb["pre"] else None
            if nlv_pre:
                side_px = ask if w > 0 else bid
                want_pos = w * nlv_pre / (side_px * mult) if w != 0 else 0.0
                before = r["hold_before"].get(syms[j], 0.0)
                imb = want_pos - before
                iw = mult * imb * (ask if imb > 0 else bid) / nlv_pre
                skipped_ok = thr > 0 and w != 0 and abs(iw) < thr * (1 + 1e-9)
                if abs(pos - want_pos) > 1e-9 * max(1.0, abs(want_pos)) and not (skipped_ok and pos == before):
                    violate("lead_target", "step {}: lead {} holds {} but the target weight {} needs {} (threshold {}, imbalance weight {})".format(
                        k, syms[j], pos, w, want_pos, thr, iw), op=k, kind="target")
                    break
            if last_lead is not None and j > last_lead:
                old_pos = r["hold_before"].get(syms[last_lead], 0.0)
                if old_pos != 0:
                    rolls += 1
                    probe("roll_executed")
                    if old_pos < 0:
                        probe("short_position_rolled")
                    if ask > bid:
                        probe("roll_with_spread")
                    if thr > 0 and nlv_pre and abs(old_pos * mult * bid / nlv_pre) < thr:
                        probe("roll_of_position_below_threshold")
                    if abs(old_pos) < 1e-6:
                        probe("roll_of_position_below_1e-6_contracts")
                    if env_spec["fees"].get("fixed") and abs(old_pos * mult * bid) < env_spec["fees"]["fixed"]:
                        probe("roll_of_position_worth_less_than_the_fee")
            last_lead = j
            if pos > 0:
                sides.add("L")
            elif pos < 0:
                sides.add("S")
            # after the step: resolution again, and nothing held past expiry
            now2 = st["now"]
            check_resolution(st["chains"]["CH"], now2, "end of step {}".format(k), k)
            if violations:
                break
            for jj, s in enumerate(syms):
                if st["hold"].get(s, 0.0) != 0 and to_dt(now2) >= exp[jj]:
                    if jj in exec_in_window:
                        violate("held_past_expiry", "{} is still held ({}) at {} >= its expiry {}".format(s, st["hold"].get(s), now2, exp[jj]), op=k, kind="expiry")
                        break
                    probe("held_past_expiry_without_step_in_roll_window")
                elif to_dt(now2) >= exp[jj] and jj in exec_in_window:
                    probe("expiry_passed_flat")
            if violations:
                break
    if not violations:
        # beyond the listed contracts: once no listed contract has a last-trading instant strictly later than the time
        # asked about (or the month offset points past the end of the list) there is nothing the chain could resolve to -
        # refusing is fine, handing out a contract that is past its last-trading instant (or a nearer month) is not
        from datetime import timedelta as _td
        asks = [ltd[-1], ltd[-1] + _td(microseconds=1), ltd[-1] + _td(days=30)]
        if offset > 0 and len(ltd) > offset:
            asks += [ltd[-1 - offset], ltd[-1 - offset] + _td(hours=1)]
        for t in asks:
            want = lead_index(ltd, t, offset)
            if want is not None and want < len(mem):
                continue
            try:
                got = chain.lead_contract(t)
            except Exception:
                probe("resolution_refused_beyond_the_listed_contracts")
                continue
            gs = getattr(got, "symbol", str(got))
            jj = syms.index(gs) if gs in syms else None
            violate("lead_resolution", "asked at {}, where no listed contract qualifies (offset {}), the chain resolves to {} (last trading {})".format(
                t, offset, gs, ltd[jj] if jj is not None else "?"), kind="past_ltd" if jj is not None and t >= ltd[jj] else "other", via="beyond_list")
            break
    if offset > 0:
        probe("month_offset_positive")
    if scenario.get("meta", {}).get("lead_only") and rolls:
        probe("single_event_days_with_roll")
    if scenario.get("meta", {}).get("explicit"):
        probe("explicit_contract_list")
    if scenario.get("meta", {}).get("chain_keyed") and rolls:
        probe("quotes_addressed_to_the_chain_across_a_roll")
    if sim.faults.get("foreign_clock_write"):
        probe("foreign_clock_write")
    m = scenario.get("meta", {})
    trace = "{}|n{}|o{}|{}|t{}|r{}|{}|thr{}|d{}|q{}".format(m.get("cls"), m.get("nmem"), offset, m.get("style"), m.get("tod"), rolls, "".join(sorted(sides)), thr, delay, int(bool(m.get("lead_only"))))
    d_first, d_last = core.parse_t(env_spec["grid"][0]), core.parse_t(env_spec["grid"][-1])
    sim.stats["sim_seconds"] = int((d_last - d_first).total_seconds())
    sim.stats["rolls"] = rolls
    return {"violations": violations, "digest": core.digest(sim.log_for_digest()), "probes": probes, "faults": sim.faults,
            "stats": sim.stats, "trace": trace, "nontrivial": rolls >= 1 and len(probes) >= 1}


def describe(scenario):
    if scenario.get("construct_only"):
        return {"construct_only": scenario["envs"][0]["contracts"][0]}
    d = gen_epi.describe(scenario)
    d["meta"] = scenario.get("meta")
    return d


def shrink_paths(scenario):
    return [("script",)]


generate_single = gen_epi.with_backtest_driver(generate, 0.2)


def generate(rng, i):
    """What the engine runs: in a third of the runs the episode is played twice on the same environment (the second
    one starts earlier than the first one ended, after at least one roll): whatever the first episode left in the
    environment, its action space or the chain must not decide what the second one trades."""
    sc = generate_single(rng, i)
    if i % 3 == 0 and not sc.get("construct_only") and sc.get("driver") != "backtest":
        sc["script"] = sc["script"] + [dict(op) for op in sc["script"]]
        sc["meta"]["again"] = True
    return sc
