"""C01 - self-financing trading: NLV moves only by prices, interest, fees and spread."""
from tesim import acct, gen_acct

PROP = "C01"
PLAN = {"quick": 12000, "thorough": 600000}
TIMEOUT = 20
CHUNK = 250
RULE = ("seeded swarm of account histories over {quote, trade(open/add/reduce/close/flip), rebalance, mark, value, "
        "advance+accrue} on 1-5 spot-like/margined contracts (user-defined and built-in), fees and spreads; the exact "
        "Fraction ledger identity and per-operation NLV deltas are evaluated after every operation. A run is non-trivial "
        "if it executed >=1 trade and hit >=1 probe; distinct = distinct abstract traces (op kind x signs of positions "
        "per contract kind x quote regime) among those. A third of the runs also execute a model-free twin: the same script on an "
        "account in which one contract is spot-like instead of margined (or vice versa), whose NLV path must coincide")
ASSUMPTIONS = [
    "quotes 0 < bid <= ask; fees fixed >= 0, proportional >= 0; trades built from the exchange's current quotes",
    "tolerance 1e-9 x max(deposit, gross notional seen) plus the documented epsilon-flattening slack of Broker.transact",
    "interest amounts are taken as reported by the broker (their correctness is C06)",
]
COMPONENTS = {"real": ["Exchange", "LimitOrderBook", "Broker", "Trade", "Rebalancing", "BrokerFees", "TrackRecord", "contracts"],
              "harness": ["user-defined AbstractContract subclasses", "Fraction ledger"], "stub": []}
PROBE_FLOORS = {"add_to_margined_under_spread": 30, "flip_through_zero": 30, "close_exactly": 30,
                "spot_multiplier_not_1": 30, "two_margined_open": 30, "negative_cash": 10, "rebalance_built_trade": 30, "twin_compared": 167, "account_resumed_in_another_process": 6}

PROFILE = {
    "oracles": ["c01"],
    "mix": {"quote": 3, "trade": 3, "rebal": 1, "mark": 0.5, "value": 1, "advance": 0.3},
    "p_margined": 0.5, "p_observe_every": 0.7, "p_frictionless": 0.1, "p_whole_lots": 0.2, "p_sizes": 0.1,
    "motifs": [(0.25, gen_acct.motif_add_margined_under_spread), (0.15, gen_acct.motif_flip),
               (0.15, gen_acct.motif_spot_multiplier), (0.1, gen_acct.motif_margin_call), (0.1, gen_acct.motif_near_close), (0.1, gen_acct.motif_one_sided_liquidation_quote), (0.12, gen_acct.motif_zero_liquidation_side)],
}


def generate(rng, i):
    sc = gen_acct.generate(rng, PROFILE)
    # differential twin (oracle 3): no rate events, no interest; only user-defined / built-in non-rate contracts
    has_interest = any(op["op"] in ("rate", "accrue") for op in sc["script"])
    # (no fixed fee either: a rounding-level dust trade that only one of the two accounts makes would cost a whole fee)
    if rng.random() < 0.45 and not has_interest and not sc["fees"].get("fixed"):
        sc["twin"] = rng.randrange(len(sc["contracts"]))
        sc["twin_mreq"] = rng.choice([0.05, 0.25, 1.0])
    return sc


def execute(scenario):
    return acct.execute(scenario, PROP)


def _with_checkpoint(gen):
    def wrapped(rng, i):
        sc = gen(rng, i)
        if i % 250 == 7 and len(sc["script"]) >= 4:
            # fault: the account is pickled mid-script and resumed in another interpreter (another hash seed, freshly
            # built contract objects) - a checkpoint to disk, a spawned worker
            sc["resume_at"] = rng.randint(2, len(sc["script"]) - 1)
            sc["twin"] = None
        if i % 4 == 1:
            sc["neighbour"] = i      # an unrelated account in the same process, moved in between this one's operations
        if i % 2 == 0:
            for spec in sc["contracts"]:
                if spec["kind"] in ("spot", "margined"):
                    spec["per_instance"] = True     # one user class for all instruments, requirements per instance
        return sc
    return wrapped


def describe(scenario):
    return gen_acct.describe(scenario)


def shrink_paths(scenario):
    return [("script",)]


def simplify(scenario):
    import copy
    sc = scenario
    if sc["fees"].get("fixed") or sc["fees"].get("prop"):
        c = copy.deepcopy(sc)
        c["fees"] = {"fixed": 0.0, "prop": 0.0}
        yield c
    if sc.get("observe") != "every":
        c = copy.deepcopy(sc)
        c["observe"] = "every"
        yield c
    used = set()
    for op in sc["script"]:
        if "c" in op and op["c"] is not None:
            used.add(op["c"])
        for k in op.get("targets", {}):
            used.add(int(k))
    # drop unused trailing contracts
    n = len(sc["contracts"])
    if used and max(used) < n - 1:
        c = copy.deepcopy(sc)
        c["contracts"] = c["contracts"][:max(used) + 1]
        yield c
    for k, op in enumerate(sc["script"]):
        if op["op"] == "trade" and op.get("mode") == "unit" and abs(op["x"]) != 1:
            c = copy.deepcopy(sc)
            c["script"][k]["x"] = 1.0 if op["x"] > 0 else -1.0
            yield c
        if op["op"] == "rebal" and len(op.get("targets", {})) > 1:
            for key in list(op["targets"]):
                c = copy.deepcopy(sc)
                del c["script"][k]["targets"][key]
                yield c


generate = _with_checkpoint(generate)
