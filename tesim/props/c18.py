"""C18 - the tabular environment serves exactly the data it was given."""
import copy
import warnings

import numpy as np
import pandas as pd
import pandas_market_calendars

from tesim import core, xy, epicheck

PROP = "C18"
PLAN = {"quick": 300, "thorough": 12000}
TIMEOUT = 120
CHUNK = 8
RULE = ("seeded tabular worlds: daily feature / price / rate tables of 30-120 rows with injected data faults (NaN cells, missing "
        "feature rows, feature table starting late or ending early, NaN prices, weekend and holiday rows), window 1-30, strides, "
        "transformers (none, z-score, yeo-johnson), clip 0.5-5, spread 0-2%, NYSE and 24/7 calendars (dates straddling real "
        "holidays), start/end bounds, folds, delay, latency; the real TradingEnvXY is built and a full episode is run. At reset "
        "and after every step: observation == last `window` rows of the published table at or before now, thinned by the "
        "stride, of the declared shape and inside the bounds; quotes == given prices widened by the spread (for a missing cell: "
        "the last given price, or no quote at all); rate book == given rate at or before now; visited dates are price-table dates that are not "
        "holidays, consecutive among those, with a full window of published rows. Non-trivial: >=5 steps and >=1 probe; "
        "distinct = (fault set, window, stride, transformer, calendar, spread class, folds, bounds)")
ASSUMPTIONS = [
    "the published feature table is env.X and the price table env.Y (the tables the environment says it serves)",
    "holiday tables are those of pandas_market_calendars as installed",
    "the given rate applies from its own date on (also when that date lies before `start` or is not a price date); before the first rate row the rate book holds the reset value 0",
]
COMPONENTS = {"real": ["TradingEnvXY (data preparation, _make_timesteps, _make_transmitter)", "State", "Transmitter", "TradingEnv", "sklearn transformers", "pandas_market_calendars"],
              "harness": ["table generator with data faults"], "stub": []}
PROBE_FLOORS = {"long_window_mid_data_start": 5, "holiday_inside_range": 18, "x_nan_cells": 13, "x_missing_rows": 11, "window_gt_1": 24, "stride_used": 12,
                "y_nan_cells": 13, "rate_given": 16, "folds_used": 10, "x_starts_late": 9, "rate_zero_or_negative": 10, "earlier_episode_on_same_instance": 10, "earlier_episode_on_other_fold": 3}
HOL = {}


def holidays(name):
    if name not in HOL:
        HOL[name] = set(pd.Timestamp(x) for x in pandas_market_calendars.get_calendar(name).holidays().holidays)
    return HOL[name]


def generate(rng, i):
    window = rng.choice([1, 1, 2, 3, 5, 10, rng.randint(11, 30), rng.randint(11, 30)])
    tb = xy.gen_tables(rng, {"n_min": 90, "n_max": 160} if window > 10 else None)
    n = len(tb["dates"])
    stride = rng.choice([None, None, 1, 2, 3, 5]) if window > 1 else None
    kw = {
        "window": window, "stride": stride, "spread": rng.choice([0, 0.0002, 0.01, 0.02]),
        "transformer": rng.choice([None, "z-score", "yeo-johnson"]), "clip": rng.choice([5.0, 2.0, 0.5, 3.3]),
        "steps_delay": rng.choice([0, 1]), "margin": 0.0, "calendar": rng.choice(["NYSE", "NYSE", "24/7"]),
        "latency": rng.choice([0, 0, 60.0]),
    }
    if rng.random() < 0.25:
        kw["start"] = tb["dates"][rng.randint(0, n // 3)]
    if rng.random() < 0.25:
        kw["end"] = tb["dates"][rng.randint(2 * n // 3, n - 1)]
    if rng.random() < 0.2:
        kw["transformer_end"] = tb["dates"][rng.randint(n // 3, n - 1)]
    fold = None
    if rng.random() < (0.6 if window > 10 else 0.2):
        k = rng.randint(n // 3, 2 * n // 3)
        kw["folds"] = {"train": [tb["dates"][0], tb["dates"][k]], "test": [tb["dates"][min(k + 1, n - 1)], tb["dates"][-1]]}
        fold = rng.choice(["train", "test", "test"])      # 'test' starts mid-data: the window must be warmed up from history
    ny = len(tb["ycols"])
    acts = [[round(rng.uniform(-0.3, 0.5), 4) for _ in range(ny)] for _ in range(7)]
    late_features = False
    if kw["latency"] and rng.random() < 0.6:
        # feature rows are stamped 30 s after the price rows, i.e. inside the latency window of the previous timestep
        tb["x_offset_s"] = 30
        late_features = True
    prior = None
    if rng.random() < (0.5 if (kw.get("folds") or late_features) else 0.15):
        # an earlier episode on the same environment instance (on another fold if there are folds), abandoned after
        # a few steps or played to its end: what the judged episode serves must not depend on it
        prior = {"fold": rng.choice(sorted(kw["folds"])) if kw.get("folds") else None, "max_steps": rng.choice([0, 1, 3, None])}
    if tb.get("rate") is not None and i % 3 == 0 and tb["freq"] != "H6":
        # the reference rate is published on dates of its own: every k-th calendar day from a few days before the first
        # price date on (week-end and holiday stamps included), not on the price dates
        import random
        from datetime import timedelta
        r2 = random.Random("rate-dates:{}".format(i))
        d0, d1 = core.parse_t(tb["dates"][0]), core.parse_t(tb["dates"][-1])
        step = r2.choice([1, 3, 7, 30])
        t = d0 - timedelta(days=r2.randint(0, 3))
        idx = []
        while t <= d1:
            idx.append(core.iso(t))
            t += timedelta(days=step)
        tb["rate_index"] = idx
        tb["rate"] = [tb["rate"][k % len(tb["rate"])] for k in range(len(idx))]
    return {"kind": "xy", "tables": tb, "kwargs": kw, "fold": fold, "actions": acts, "np_seed": rng.randrange(2 ** 31), "prior": prior}


def execute(scenario):
    violations, probes, violate, probe = epicheck.mk_violation_sink()
    tb, kw = scenario["tables"], scenario["kwargs"]
    window, stride, spread = kw["window"], kw.get("stride"), kw.get("spread", 0.0002)
    stats = {"ops": 0, "steps": 0}
    with core.sim_context():
        try:
            env, X0, Y0, rate0 = xy.make_env(scenario)
        except Exception as e:
            # legitimate refusals: not enough data for the window / empty ranges
            return {"violations": [], "digest": core.digest(["build", core.exc_name(e)]), "probes": {"build_refused": 1}, "faults": {},
                    "stats": {"ops": 1, "build_refused": 1}, "trace": "refused:" + core.exc_name(e), "nontrivial": False}
        prior = scenario.get("prior")
        if prior:
            try:
                xy.run_episode(env, scenario["actions"], fold=prior.get("fold"), np_seed=scenario.get("np_seed", 0) + 1, max_steps=prior.get("max_steps"))
                probe("earlier_episode_on_same_instance")
                if tb.get("x_offset_s"):
                    probe("earlier_episode_with_feature_rows_inside_the_latency_window")
                if prior.get("fold") != scenario.get("fold"):
                    probe("earlier_episode_on_other_fold")
            except Exception:
                pass        # a refused earlier reset leaves the judged episode to be served as usual
        try:
            recs = xy.run_episode(env, scenario["actions"], fold=scenario.get("fold"), np_seed=scenario.get("np_seed", 0))
        except Exception as e:
            return {"violations": [], "digest": core.digest(["reset", core.exc_name(e)]), "probes": {"reset_refused": 1}, "faults": {},
                    "stats": {"ops": 1, "reset_refused": 1}, "trace": "reset-refused:" + core.exc_name(e), "nontrivial": False}
        EX = env.X
        EY = env.Y
        space = env.observation_space
        hol = holidays(kw.get("calendar", "NYSE"))
        ycols = list(EY.columns)
        # the rate in force at a step is the last one given at or before it - also one given before `start`, or
        # on a date that is not a price date (repaired defect D13: such a rate used to be unknown after a reset)
        rate_in = rate0 if rate0 is not None else None
        visited = []
        for k, r in enumerate(recs):
            stats["ops"] += 1
            if r.get("exc"):
                prev_books = recs[k - 1]["books"] if k > 0 and not recs[k - 1].get("exc") else {}
                if r["exc"] == "ValueError" and any(b[0] != b[0] or b[1] != b[1] for b in prev_books.values()):
                    # an asset without any given price so far cannot be traded: the step fails loudly (C13), the data is served correctly
                    probe("step_refused_missing_price")
                    break
                violate("unexpected_exception", "step {} raised {}: {}".format(k - 1, r["exc"], r.get("msg")), op=k, exc=r["exc"], where="step")
                break
            stats["steps"] += 1
            t = pd.Timestamp(r["now"])
            visited.append(t)
            obs = r["obs"]
            rows = EX.loc[:t].iloc[-window:].values
            full = len(EX.loc[:t]) >= window
            if stride:
                rows = rows[::-stride][::-1]
            if tuple(obs.shape) != tuple(space.shape):
                violate("observation_shape", "at {} the observation has shape {} but the declared space is {}".format(t, obs.shape, space.shape), op=k, kind="shape")
                break
            if not full:
                violate("step_before_full_window", "a step occurs at {} where only {} published feature rows exist (window {})".format(t, len(EX.loc[:t]), window), op=k, kind="window")
                break
            if rows.shape != obs.shape or not np.array_equal(obs, rows):
                where = "first" if k == 0 else "later"
                violate("observation_content", "at {} the observation differs from the last {} rows (stride {}) of the published table: got {} expected {}".format(
                    t, window, stride, obs.tolist()[:3], rows.tolist()[:3]), op=k, kind=where)
                break
            if not space.contains(obs):
                violate("observation_bounds", "at {} the observation leaves the declared bounds: min {} max {}".format(t, float(obs.min()), float(obs.max())), op=k, kind="bounds")
                break
            for col in ycols:
                p = EY[col].loc[:t].dropna()
                if len(p) == 0:
                    continue
                bid, ask = r["books"][str(col.symbol)]
                if pd.isna(EY[col].loc[t]) if t in EY.index else True:
                    # no price given at this date: the statement fixes nothing; the book may still be empty
                    # (markov reset) or hold the last given price - but never anything else
                    probe("y_nan_cells")
                    if bid != bid and ask != ask:
                        continue
                p = float(p.iloc[-1])
                if not (abs(bid - p * (1 - spread / 2)) <= 1e-12 * abs(p) and abs(ask - p * (1 + spread / 2)) <= 1e-12 * abs(p)):
                    violate("quotes", "at {} the book of {} is {}:{} but the given price {} widened by the spread {} is {}:{}".format(
                        t, col, bid, ask, p, spread, p * (1 - spread / 2), p * (1 + spread / 2)), op=k, kind="spread" if abs((bid + ask) / 2 - p) <= 1e-9 * p else "price")
                    break
            if violations:
                break
            if rate_in is not None:
                rr = rate_in.loc[:t]
                want = float(rr.iloc[-1]) if len(rr) else 0.0
                if r["rate"][0] != want or r["rate"][1] != want:
                    violate("rate", "at {} the rate book is {} but the given rate at or before that date is {}".format(t, r["rate"], want), op=k, kind="rate")
                    break
            if t not in EY.index:
                violate("visited_dates", "a step occurs at {} which is not a date of the price table".format(t), op=k, kind="not_in_Y")
                break
            if t.normalize() in hol:
                violate("visited_dates", "a step occurs at {} which is a {} holiday".format(t, kw.get("calendar")), op=k, kind="holiday")
                break
        if not violations and len(visited) >= 2:
            lo, hi = visited[0], visited[-1]
            elig = [d for d in EY.loc[lo:hi].index if d.normalize() not in hol]
            if scenario.get("fold") is None:
                if visited != elig:
                    miss = [d for d in elig if d not in visited]
                    violate("visited_dates", "steps skip eligible price dates {} between {} and {}".format(miss[:4], lo, hi), kind="skipped")
                # the episode runs to the end of the overlapping data
                last_ok = min(EX.last_valid_index(), EY.last_valid_index())
                tail = [d for d in EY.loc[hi:last_ok].index if d.normalize() not in hol and d > hi]
                if tail and recs[-1].get("done"):
                    violate("visited_dates", "the episode ended at {} although eligible dates {} follow".format(hi, tail[:3]), kind="ended_early")
            if any(d.normalize() in hol for d in EY.loc[lo:hi].index):
                probe("holiday_inside_range")
    for f in tb["faults"]:
        probe(f)
    if window > 1:
        probe("window_gt_1")
    if stride and stride > 1:
        probe("stride_used")
    if tb.get("rate") is not None:
        probe("rate_given")
        if any(x <= 0 for x in tb["rate"]):
            probe("rate_zero_or_negative")
    if kw.get("folds"):
        probe("folds_used")
    if tb.get("freq") == "H6":
        probe("intraday_tables")
    if window > 10 and (scenario.get("fold") == "test" or kw.get("start")) and stats["steps"] >= 2:
        probe("long_window_mid_data_start")
    trace = "{}{}|w{}|s{}|{}|{}|sp{}|f{}|{}{}|c{}".format(tb.get("freq"), ",".join(sorted(tb["faults"])), window, stride, kw.get("transformer"), kw.get("calendar"),
                                                       kw.get("spread"), scenario.get("fold"), int("start" in kw), int("end" in kw), kw.get("clip"))
    faults = {f: 1 for f in tb["faults"]}
    return {"violations": violations, "digest": core.digest(xy.log_digestable(recs)), "probes": probes, "faults": faults,
            "stats": stats, "trace": trace, "nontrivial": stats["steps"] >= 5 and len(probes) >= 1}


def describe(scenario):
    tb = scenario["tables"]
    return {"rows": len(tb["dates"]), "first": tb["dates"][0], "last": tb["dates"][-1], "x_rows": len(tb["x_rows"]), "xcols": tb["xcols"],
            "ycols": tb["ycols"], "faults": tb["faults"], "kwargs": scenario["kwargs"], "fold": scenario.get("fold"), "X_head": tb["X"][:3], "Y_head": tb["Y"][:3]}


def shrink_paths(scenario):
    return []


def simplify(scenario):
    kw = scenario["kwargs"]
    for key, val in (("transformer", None), ("stride", None), ("spread", 0), ("steps_delay", 0), ("latency", 0), ("calendar", "24/7"), ("clip", 5.0)):
        if kw.get(key) != val:
            c = copy.deepcopy(scenario)
            c["kwargs"][key] = val
            yield c
    for key in ("start", "end", "transformer_end", "folds"):
        if key in kw:
            c = copy.deepcopy(scenario)
            del c["kwargs"][key]
            if key == "folds":
                c["fold"] = None
            yield c
    if kw.get("window", 1) > 1:
        for w in (1, 2, 3):
            if w < kw["window"]:
                c = copy.deepcopy(scenario)
                c["kwargs"]["window"] = w
                if w == 1:
                    c["kwargs"]["stride"] = None
                yield c
    tb = scenario["tables"]
    if tb.get("rate") is not None:
        c = copy.deepcopy(scenario)
        c["tables"]["rate"] = None
        yield c
    n = len(tb["dates"])
    if n > 20:
        # drop the last quarter of the rows
        keep = n - n // 4
        c = copy.deepcopy(scenario)
        t = c["tables"]
        t["dates"] = t["dates"][:keep]
        t["Y"] = t["Y"][:keep]
        if t.get("rate") is not None:
            t["rate"] = t["rate"][:keep]
        pairs = [(j, row) for j, row in zip(t["x_rows"], t["X"]) if j < keep]
        t["x_rows"] = [j for j, _ in pairs]
        t["X"] = [row for _, row in pairs]
        for key in ("start", "end", "transformer_end"):
            if key in c["kwargs"] and c["kwargs"][key] not in t["dates"]:
                del c["kwargs"][key]
        if "folds" not in c["kwargs"]:
            yield c
