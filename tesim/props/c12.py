"""C12 - trade filtering: threshold, liquidations and whole lots."""
from tesim import acct, gen_acct

PROP = "C12"
PLAN = {"quick": 10000, "thorough": 500000}
TIMEOUT = 20
CHUNK = 250
RULE = ("seeded swarm of account histories with repeated rebalances under thresholds {0,1e-3,0.02,0.05,0.125,0.5}, "
        "whole-lot mode, weight and number-of-contract measures; 25% of runs live in an exactly-dyadic world (deposit 2^20, "
        "power-of-two prices and multipliers, dyadic weights and thresholds) where 'exactly at the threshold' is exact in "
        "floating point; after every rebalance the emitted trade set and quantities are compared with the set predicted "
        "from the observable pre-state by the exact model. One run in six goes through TradingEnv with the threshold and lot mode "
        "configured on a continuous portfolio space in weights or number-of-contract mode. Non-trivial: >=1 rebalance and >=1 probe; distinct abstract "
        "traces among those")
ASSUMPTIONS = [
    "outside the dyadic world, cases within 1e-9 relative of a strict/non-strict boundary (threshold, integer lot, zero imbalance) are not classified",
    "weakest fit for this technique: make_trades is a function of (holdings, target, quotes, threshold); the simulation contributes the reachable holdings/quote states, repeated rebalances and liquidation interplay",
]
COMPONENTS = {"real": ["Exchange", "Broker", "Rebalancing.make_trades", "Weights/NrContracts", "Trade", "contracts"],
              "harness": ["user-defined AbstractContract subclasses", "Fraction filter model"], "stub": []}
PROBE_FLOORS = {"exact_threshold_emit": 5, "below_threshold_skip": 50, "liquidation_below_threshold": 10,
                "sublot_skip": 30, "negative_truncation": 20, "env_below_threshold_skip": 100,
                "env_at_or_above_threshold_emit": 300, "market_moved_between_preview_and_execution": 600,
                "xy_below_threshold_skip": 1000, "xy_emit_between_threshold_and_spread": 300}

PROFILE = {
    "oracles": ["c12"],
    "mix": {"quote": 2, "trade": 1, "rebal": 4, "mark": 0.2, "value": 0.3, "advance": 0.1},
    "always": ("rebal",),
    "p_margined": 0.4, "p_observe_every": 0.2, "p_frictionless": 0.3, "p_exact": 0.25,
    "p_threshold": 0.7, "p_whole_lots": 0.35, "p_weight": 0.8, "p_again": 0.4, "p_sizes": 0.1,
    "motifs": [(0.3, gen_acct.motif_rebalance_twice_whole_lots), (0.3, gen_acct.motif_exact_threshold),
               (0.2, gen_acct.motif_liquidate_below_threshold)],
}


def generate_xy(rng, i):
    """The tabular environment configured with a threshold (`margin`) and a spread of its own - thresholds below,
    at and above the spread, including none at all: the filter applies the *configured* threshold."""
    from tesim import xy
    tb = xy.gen_tables(rng, {"n_min": 40, "n_max": 70, "freqs": ["D"]})
    ny = len(tb["ycols"])
    for r, row in enumerate(tb["Y"]):
        for j, v in enumerate(row):
            if v != v:
                row[j] = tb["Y"][r - 1][j] if r > 0 else 100.0
    kw = {"window": 1, "stride": None, "spread": rng.choice([0.01, 0.01, 0.001, 0.0]), "transformer": None, "clip": 5.0,
          "steps_delay": 0, "margin": rng.choice([0.0, 0.002, 0.005, 0.02, 0.05]), "calendar": "24/7", "latency": 0}
    acts = []
    a = [round(rng.uniform(0.05, 0.3), 3) for _ in range(ny)]
    for k in range(14):
        a = [round(min(0.9, max(-0.9, x + rng.choice([0, 0, 0.001, -0.001, 0.003, -0.003, 0.006, -0.006, 0.015, -0.015, 0.06, -0.06]))), 4) for x in a]
        if rng.random() < 0.1:
            a[rng.randrange(ny)] = 0.0
        acts.append(list(a))
    return {"kind": "xy", "tables": tb, "kwargs": kw, "fold": None, "actions": acts, "np_seed": rng.randrange(2 ** 31)}


def execute_xy(scenario):
    import warnings
    import numpy as np
    from fractions import Fraction as F
    from tesim import xy, core, epicheck
    violations, probes, violate, probe = epicheck.mk_violation_sink()
    kw = scenario["kwargs"]
    thr = F(kw["margin"])
    log = []
    trades = 0
    with core.sim_context():
        try:
            env, X0, Y0, rate0 = xy.make_env(scenario)
        except Exception as e:
            return {"violations": [], "digest": core.digest(["build", core.exc_name(e)]), "probes": {"build_refused": 1}, "faults": {},
                    "stats": {"ops": 1}, "trace": "xy-refused", "nontrivial": False}
        cols = list(env.Y.columns)
        np.random.seed(scenario.get("np_seed", 0) % (2 ** 32))
        with warnings.catch_warnings():
            warnings.simplefilter("ignore")
            try:
                env.reset()
            except Exception as e:
                return {"violations": [], "digest": core.digest(["reset", core.exc_name(e)]), "probes": {"reset_refused": 1}, "faults": {},
                        "stats": {"ops": 1}, "trace": "xy-reset-refused", "nontrivial": False}
            done = bool(getattr(env, "_done", False))
            k = 0
            while not done and k < len(scenario["actions"]) and not violations:
                w_vec = scenario["actions"][k]
                books = {c: (env.exchange[c].bid_price, env.exchange[c].ask_price) for c in cols}
                hold = env.broker.holdings_quantity
                try:
                    obs, reward, done, info = env.step(np.array(w_vec, dtype=float))
                except Exception as e:
                    if core.exc_name(e) != "EndOfEpisodeError":
                        violate("unexpected_exception", "tabular environment: step {} raised {!r}".format(k, e), op=k, exc=core.exc_name(e), where="step", site="xy")
                    break
                reb = info.get("_rebalancing")
                if reb is None:
                    break
                got = {t.contract: t.quantity for t in reb.trades}
                nlv = F(float(reb.context_pre.nlv))
                log.append([k, sorted((str(c.symbol), float(q)) for c, q in got.items())])
                trades += len(got)
                for j, c in enumerate(cols):
                    w = float(w_vec[j])
                    pos = F(float(hold.get(c, 0.0)))
                    bid, ask = books[c]
                    if bid != bid or ask != ask or nlv <= 0:
                        continue
                    target = F(w) * nlv / F(ask if w > 0 else bid) if w != 0 else F(0)
                    imb = target - pos
                    zone = F(1, 10 ** 9) * max(1, abs(imb), abs(target), abs(pos))
                    if abs(imb) <= zone:
                        continue
                    iw = imb * F(ask if imb > 0 else bid) / nlv
                    if abs(abs(iw) - thr) <= F(1, 10 ** 9) * max(1, thr):
                        continue
                    liquidation = (w == 0)
                    emit = liquidation or abs(iw) >= thr
                    if emit != (c in got):
                        kind = "liquidation_skipped" if liquidation else ("emitted_below_threshold" if c in got else "skipped_at_or_above_threshold")
                        violate("filter_emission", "tabular environment (margin {}, spread {}): step {}: {}: imbalance weight {} target {}: expected emit={} got {}".format(
                            kw["margin"], kw["spread"], k, c.symbol, float(iw), w, emit, c in got), op=k, kind=kind)
                        break
                    probe("xy_at_or_above_threshold_emit" if emit else "xy_below_threshold_skip")
                    if emit and kw["spread"] > kw["margin"] and abs(iw) < F(kw["spread"]):
                        probe("xy_emit_between_threshold_and_spread")
                k += 1
    trace = "xy|m{}|s{}|n{}".format(kw["margin"], kw["spread"], len(log))
    return {"violations": violations, "digest": core.digest(log), "probes": probes, "faults": {},
            "stats": {"ops": len(log), "steps": len(log), "trades": trades, "rebalances": len(log)}, "trace": trace, "nontrivial": trades >= 1 and len(probes) >= 1}


def generate(rng, i):
    if i % 12 == 7:
        return generate_xy(rng, i)
    if i % 6 == 5:
        from tesim.props import c12_epi
        return c12_epi.generate(rng, i)
    sc = gen_acct.generate(rng, PROFILE)
    if i % 5 == 2:
        # crossed books (bid above ask - the event class accepts them and feeds do produce them): a buy is still
        # weighed and filled at the ask, a sell at the bid.  Decided without consuming draws of the generator's stream
        import random
        r = random.Random("cross:{}".format(sc["prng"]))
        for op in sc["script"]:
            if op["op"] == "quote" and op["bid"] == op["bid"] and op["ask"] == op["ask"] and op["bid"] < op["ask"] and r.random() < 0.5:
                op["bid"], op["ask"] = op["ask"], op["bid"]
                sc["crossed"] = True
    return sc


def execute(scenario):
    if scenario.get("kind") == "xy":
        return execute_xy(scenario)
    if scenario.get("kind") == "epi":
        from tesim.props import c12_epi
        return c12_epi.execute(scenario)
    return acct.execute(scenario, PROP)


def describe(scenario):
    if scenario.get("kind") == "xy":
        return {"kind": "xy", "kwargs": scenario["kwargs"], "rows": len(scenario["tables"]["Y"]), "actions": len(scenario["actions"])}
    if scenario.get("kind") == "epi":
        from tesim import gen_epi
        return gen_epi.describe(scenario)
    return gen_acct.describe(scenario)


def shrink_paths(scenario):
    if scenario.get("kind") == "xy":
        return [("actions",)]
    return [("script",)]


from tesim.props.c01 import simplify as _simplify_acct  # noqa: E402


def simplify(scenario):
    if scenario.get("kind") == "xy":
        return
    if scenario.get("kind") == "epi":
        return
    for c in _simplify_acct(scenario):
        yield c
