"""C12 - trade filtering: threshold, liquidations and whole lots."""
from tesim import acct, gen_acct

PROP = "C12"
PLAN = {"quick": 10000, "thorough": 500000}
TIMEOUT = 20
CHUNK = 250
RULE = ("seeded swarm of account histories with repeated rebalances under thresholds {0,1e-3,0.02,0.05,0.125,0.5}, "
        "whole-lot mode, weight and number-of-contract measures; 25% of runs live in an exactly-dyadic world (deposit 2^20, "
        "power-of-two prices and multipliers, dyadic weights and thresholds) where 'exactly at the threshold' is exact in "
        "floating point; after every rebalance the emitted trade set and quantities are compared with the set predicted "
        "from the observable pre-state by the exact model. One run in six goes through TradingEnv with the threshold and lot mode "
        "configured on a continuous portfolio space in weights or number-of-contract mode. Non-trivial: >=1 rebalance and >=1 probe; distinct abstract "
        "traces among those")
ASSUMPTIONS = [
    "outside the dyadic world, cases within 1e-9 relative of a strict/non-strict boundary (threshold, integer lot, zero imbalance) are not classified",
    "weakest fit for this technique: make_trades is a function of (holdings, target, quotes, threshold); the simulation contributes the reachable holdings/quote states, repeated rebalances and liquidation interplay",
]
COMPONENTS = {"real": ["Exchange", "Broker", "Rebalancing.make_trades", "Weights/NrContracts", "Trade", "contracts"],
              "harness": ["user-defined AbstractContract subclasses", "Fraction filter model"], "stub": []}
PROBE_FLOORS = {"exact_threshold_emit": 5, "below_threshold_skip": 50, "liquidation_below_threshold": 10,
                "sublot_skip": 30, "negative_truncation": 20, "env_below_threshold_skip": 100,
                "env_at_or_above_threshold_emit": 300, "market_moved_between_preview_and_execution": 600}

PROFILE = {
    "oracles": ["c12"],
    "mix": {"quote": 2, "trade": 1, "rebal": 4, "mark": 0.2, "value": 0.3, "advance": 0.1},
    "always": ("rebal",),
    "p_margined": 0.4, "p_observe_every": 0.2, "p_frictionless": 0.3, "p_exact": 0.25,
    "p_threshold": 0.7, "p_whole_lots": 0.35, "p_weight": 0.8, "p_again": 0.4,
    "motifs": [(0.3, gen_acct.motif_rebalance_twice_whole_lots), (0.3, gen_acct.motif_exact_threshold),
               (0.2, gen_acct.motif_liquidate_below_threshold)],
}


def generate(rng, i):
    if i % 6 == 5:
        from tesim.props import c12_epi
        return c12_epi.generate(rng, i)
    sc = gen_acct.generate(rng, PROFILE)
    if i % 5 == 2:
        # crossed books (bid above ask - the event class accepts them and feeds do produce them): a buy is still
        # weighed and filled at the ask, a sell at the bid.  Decided without consuming draws of the generator's stream
        import random
        r = random.Random("cross:{}".format(sc["prng"]))
        for op in sc["script"]:
            if op["op"] == "quote" and op["bid"] == op["bid"] and op["ask"] == op["ask"] and op["bid"] < op["ask"] and r.random() < 0.5:
                op["bid"], op["ask"] = op["ask"], op["bid"]
                sc["crossed"] = True
    return sc


def execute(scenario):
    if scenario.get("kind") == "epi":
        from tesim.props import c12_epi
        return c12_epi.execute(scenario)
    return acct.execute(scenario, PROP)


def describe(scenario):
    if scenario.get("kind") == "epi":
        from tesim import gen_epi
        return gen_epi.describe(scenario)
    return gen_acct.describe(scenario)


def shrink_paths(scenario):
    return [("script",)]


from tesim.props.c01 import simplify as _simplify_acct  # noqa: E402


def simplify(scenario):
    if scenario.get("kind") == "epi":
        return
    for c in _simplify_acct(scenario):
        yield c
