"""C10 - episodes are reproducible and environments are isolated."""
import copy
from datetime import timedelta

from tesim import core, epi, gen_epi, epicheck
from tesim.core import canon
from tesim.epimodel import Delivery

PROP = "C10"
PLAN = {"quick": 600, "thorough": 60000}
TIMEOUT = 120
CHUNK = 20
RULE = ("seeded evaluations of 1-3 environment configurations (spot, user-defined, margined, futures, futures chains with "
        "rolls, features with history, fees, latency, delay, folds, episode_length), each with a script of prefix episodes "
        "(complete / abandoned after j steps / ended by a malformed action / ended by a missing price / ended by ruin) "
        "followed by a reference episode played twice. Three arms per evaluation, all on freshly built objects: every "
        "environment alone; all environments interleaved at API-call granularity by a seeded scheduler (uniform, bursty, "
        "strict alternation) with foreign writes to the process-wide contract clock and foreign draws from the global PRNGs "
        "in between; the reference episode on a fresh environment. Oracles are bit-for-bit equality of the complete per-"
        "environment logs (observations, rewards, done flags, trades, holdings, NLV, track record, every observer callback, "
        "clocks): interleaved == alone, after-prefix == fresh, first play == second play. In 30 % of the environments the running "
        "environment object is copied mid-episode (copy.deepcopy or a pickle round trip; a checkpoint) and both objects are stepped "
        "from then on, the copy before or after the original: what a caller sees of the copy (observation, reward, done, holdings, "
        "NLV, last track-record entry) must equal the original's, and the original must be undisturbed (its second play has no copy). Non-trivial: >=2 environments or "
        ">=1 prefix episode, >=1 trade, >=1 probe; distinct = (env kinds, prefix kinds, call-order string)")
ASSUMPTIONS = [
    "each environment owns its Transmitter and observers (sharing a Transmitter is sharing state by construction)",
    "the episode window is pinned by seeding numpy's global PRNG immediately before each reset() in every arm (the property conditions on the fold or episode window)",
    "foreign clock values and construction order stay inside every chain's span",
    "observation by the harness (valuation calls between steps) is identical in every arm",
]
COMPONENTS = {"real": ["TradingEnv", "Transmitter", "Broker", "Exchange", "IState", "Feature", "FutureChain", "AbstractContract.now"],
              "harness": ["seeded call-level scheduler", "recording observers", "fault ops (clock write, PRNG draw)"], "stub": []}
PROBE_FLOORS = {"two_envs_with_library_weight_features_of_different_bounds": 3, "copy_and_original_stepped_side_by_side": 400, "running_environment_copied_by_pickle": 35, "running_environment_copied_by_deepcopy": 40, "folds_split_at_the_intraday_cutoff_of_a_roll_day": 5, "chain_environment_with_folds": 60, "two_chain_envs_different_leads": 8, "prefix_malformed_action": 34, "prefix_missing_price": 3, "prefix_ruin": 5,
                "prefix_abandoned_at_step_0": 18, "clock_left_in_future_by_prefix": 82, "interleaved_envs_ge_2": 59,
                "foreign_clock_write": 47, "foreign_prng_draw": 50, "prefix_on_other_fold": 6, "timesteps_without_events": 14, "prefix_observer_crash_fired": 23, "two_envs_sharing_the_default_reward_object": 4, "observer_crash_during_reset": 16, "observer_crash_during_step": 8}

PROFILE = {
    "n_min": 3, "n_max": 9, "n_long": 16, "p_long": 0.05, "c_min": 1, "c_max": 3, "p_bar": 1.0, "extras_max": 6,
    "extra_kinds": ["nbbo", "custom", "obs"], "p_sparse_grid": 0.3, "p_folds": 0.35, "p_markov": 0.15, "p_warmup": 0.15,
    "delays": [0, 0, 1, 2], "contract_kinds": ["ETF", "spot", "margined", "future"], "p_with_cash": 0.2,
    "fixed_fees": [0, 0.01], "p_rate": 0.3, "spreads": [0, 0.001, 0.01],
}


def gen_plain_env(rng):
    env = gen_epi.gen_env(rng, PROFILE)
    env["state"] = {"type": "rec", "feature": True, "k": rng.randint(1, 4)}
    if rng.random() < 0.4:
        env["reward"] = "default"       # built without reward=: the constructor's default object, shared process-wide
    if rng.random() < 0.2:
        env["state"]["twin_class"] = True   # a same-named observer class with fewer subscriptions was instanced earlier
    if rng.random() < 0.35:
        # the library's portfolio-weight feature with this environment's own declared bounds
        env["state"]["pw_feature"] = rng.choice([[-1.0, 1.0], [0.0, 1.0], [-0.5, 2.0], [-3.0, 3.0], [0.0, 4.0]])
    meta = {"kind": "plain", "late": None, "shock": None, "fold": rng.choice(sorted(env["folds"])) if env.get("folds") else None}
    grid = [core.parse_t(x) for x in env["grid"]]
    n = len(grid)
    nc = len(env["contracts"])
    if rng.random() < 0.3 and n >= 4:
        env["episode_length"] = rng.randint(1, max(1, n - 2))
    # a contract whose first quote comes late (prefix episodes can hit a missing price)
    if nc >= 2 and rng.random() < 0.7 and not env.get("markov") and env.get("warmup_s") is None and not env.get("episode_length") and not env.get("folds"):
        q = rng.randint(2, max(2, n - 1))
        c = nc - 1
        env["events"] = [e for e in env["events"] if not (e["type"] == "nbbo" and e["c"] == c and core.parse_t(e["t"]) < grid[min(q, n - 1)])]
        meta["late"] = [c, min(q, n - 1)]
    # a price shock that ruins a heavily leveraged account (reference episodes survive it)
    if rng.random() < 0.25 and n >= 4 and meta["late"] is None:
        s = rng.randint(2, n - 1)
        for e in env["events"]:
            if e["type"] == "nbbo" and e["c"] == 0 and core.parse_t(e["t"]) >= grid[s]:
                e["bid"] *= 0.4
                e["ask"] *= 0.4
        meta["shock"] = s
        env["space"] = {"type": "box", "low": -1.0, "high": 4.0, "as_weights": True, "fractional": True, "margin": 0.0}
    return env, meta


def gen_chain_env(rng, force=None):
    from tesim.props import c11
    if force is None and rng.random() < 0.3:
        force = {"cls": "UN"}        # the user-defined future with an intraday cut-off
    for _ in range(5):
        sc = c11.generate_single(rng, 0, force=force)
        if not sc.get("construct_only"):
            break
    env = sc["envs"][0]
    env["state"] = {"type": "rec", "feature": True, "k": 2}
    steps = [op for op in sc["script"] if op["op"] == "step"]
    # keep chain episodes short: C11 explores long ones
    keep = min(len(steps), 40)
    env["grid"] = env["grid"][:keep + 1]
    last = core.parse_t(env["grid"][-1])
    env["events"] = [e for e in env["events"] if core.parse_t(e["t"]) <= last]
    env["grid_input"] = list(range(len(env["grid"])))
    meta = {"kind": "chain", "late": None, "shock": None, "fold": None, "actions": [op["action"] for op in steps[:keep]],
            "y0m0": sc["meta"].get("y0m0")}
    g = env["grid"]
    if len(g) >= 5 and rng.random() < 0.5:
        # two folds; the judged episodes run on the later one, earlier episodes possibly on the other: what a chain
        # resolved to in an episode over other dates (or the other half of a roll day) is nothing the next one may see
        cut = rng.randint(1, len(g) - 3)
        if env["contracts"][0].get("cls") == "UN":
            # preferably right at the cut-off of a roll day: one fold ends in its morning, the other starts in its afternoon
            noon = [k for k in range(1, len(g) - 2) if g[k][:10] == g[k + 1][:10] and g[k][8:10] == "15" and g[k][11:13] < "12" <= g[k + 1][11:13]]
            if noon and rng.random() < 0.7:
                cut = rng.choice(noon)
                env["cut_at_intraday_cutoff"] = True
        env["folds"] = {"a": [g[0], g[cut]], "b": [g[cut + 1], g[-1]]}
        meta["fold"] = "b"
        meta["actions"] = meta["actions"][:len(g) - (cut + 1) - 1]
    return env, meta


def reference_actions(rng, env, meta):
    if meta["kind"] == "chain":
        return meta["actions"]
    fold = meta.get("fold")
    steps = gen_epi.episode_steps(env, fold)
    L = env.get("episode_length")
    n = L if L else max(len(steps) - 1, 0)
    acts = []
    nc = len(env["contracts"])
    cash_pos = env["space"].get("cash_pos", 0) if env["space"].get("with_cash") else None
    for k in range(n):
        a = gen_epi.gen_action(rng, env, max_gross=0.5 if meta.get("shock") is not None else 1.2)
        if meta["late"] is not None and isinstance(a, list):
            c, q = meta["late"]
            idx = c if cash_pos is None or c < cash_pos else c + 1
            if k + 1 <= q and idx < len(a):
                # the late contract has no quote before timestep q: do not target it yet
                a[idx] = 0.0
        if meta["late"] is not None and not isinstance(a, list):
            a = 0
        acts.append(a)
    return acts


def prefix_episode(rng, env, meta, ref, tag):
    """One earlier episode: returns (ops, kind)."""
    kinds = ["complete", "abandoned", "abandoned", "malformed", "observer_crash"]
    if meta["kind"] == "plain" and len(ref) >= 2:
        kinds += ["length_override"]
    if meta["late"] is not None and env["space"]["type"] == "box":
        kinds += ["missing_price", "missing_price"]
    if meta.get("shock") is not None:
        kinds += ["ruin", "ruin"]
    kind = rng.choice(kinds)
    fold = meta.get("fold")
    if env.get("folds") and rng.random() < 0.5:
        # the earlier episode ran on another fold of the same environment (e.g. evaluation before training)
        fold = rng.choice(sorted(env["folds"]))
    ops = [{"op": "reset", "env": tag, "fold": fold, "np_seed": rng.randrange(2 ** 31)}]
    if fold != meta.get("fold"):
        ops[0]["other_fold"] = True
    n = len(ref)
    nsp = len(env["contracts"]) + (1 if env["space"].get("with_cash") else 0)
    if kind == "complete":
        for a in ref:
            ops.append({"op": "step", "env": tag, "action": a})
    elif kind == "length_override":
        # a one-off reset(episode_length=m) ("stop after m states"), played to its end or abandoned
        mlen = rng.randint(2, max(2, n))
        ops[0]["episode_length"] = mlen
        for a in ref[:rng.randint(0, mlen - 1)]:
            ops.append({"op": "step", "env": tag, "action": a})
    elif kind == "observer_crash":
        # user code (an observer callback) fails in the middle of event delivery, during the history replay of
        # reset() or inside some step; the calls that follow hit a half-updated environment
        ops.insert(0, {"op": "arm", "env": tag, "n": rng.choice([1, 2, 3, 5, 8, 13, 21, 34, 55])})
        for a in ref[:rng.randint(0, n)]:
            ops.append({"op": "step", "env": tag, "action": a})
        ops.append({"op": "arm", "env": tag, "n": None})
    elif kind == "abandoned":
        j = rng.randint(0, max(0, n - 1))
        for a in ref[:j]:
            ops.append({"op": "step", "env": tag, "action": a})
        if j == 0:
            kind = "abandoned0"
    elif kind == "malformed":
        j = rng.randint(0, max(0, n - 1))
        for a in ref[:j]:
            ops.append({"op": "step", "env": tag, "action": a})
        bad = {"bad": rng.choice(["nan", "short", "above"])} if env["space"]["type"] == "box" else {"bad": rng.choice(["index_high", "index_float"])}
        for _ in range(env.get("delay", 0) + 1):
            ops.append({"op": "step", "env": tag, "action": bad})
    elif kind == "missing_price":
        c, q = meta["late"]
        cash_pos = env["space"].get("cash_pos", 0) if env["space"].get("with_cash") else None
        idx = c if cash_pos is None or c < cash_pos else c + 1
        a = [0.0] * nsp
        a[idx] = 0.3
        for _ in range(env.get("delay", 0) + 1):
            ops.append({"op": "step", "env": tag, "action": a})
    else:   # ruin
        a = [0.0] * nsp
        cash_pos = env["space"].get("cash_pos", 0) if env["space"].get("with_cash") else None
        a[0 if cash_pos != 0 else 1] = 3.5
        for _ in range(min(n, meta["shock"] + 1)):
            ops.append({"op": "step", "env": tag, "action": a})
    return ops, kind


def schedule(rng, per_env_ops):
    """Seeded call-level scheduler: merges the per-environment op lists,
    preserving each list's order; returns (merged, call-order string)."""
    queues = [list(q) for q in per_env_ops]
    mode = rng.choice(["uniform", "bursty", "alternate"])
    merged, order = [], []
    cur = 0
    while any(queues):
        live = [k for k, q in enumerate(queues) if q]
        if mode == "uniform":
            k = rng.choice(live)
        elif mode == "alternate":
            cur = (cur + 1) % len(queues)
            while cur not in live:
                cur = (cur + 1) % len(queues)
            k = cur
        else:
            if cur not in live or rng.random() < 0.2:
                cur = rng.choice(live)
            k = cur
        merged.append(queues[k].pop(0))
        order.append("ABC"[k])
    return merged, "".join(order), mode


def generate(rng, i):
    n_env = rng.choice([1, 2, 2, 2, 3])
    envs, metas, per_env, prefix_kinds = [], [], [], []
    chain_grids = []
    chain_force = None
    for tag in range(n_env):
        if rng.random() < 0.4:
            env, meta = gen_chain_env(rng, force=chain_force)
            chain_grids.append([env["grid"][0], env["grid"][-1]])
            if chain_force is None:
                # later chain environments live on the same calendar (other offsets / grids), so they can be alive together
                c0 = env["contracts"][0]
                chain_force = {"cls": c0["cls"], "y0m0": meta.get("y0m0")}
        else:
            env, meta = gen_plain_env(rng)
        ref = reference_actions(rng, env, meta)
        ops = []
        kinds = []
        for _ in range(rng.randint(0, 2) if n_env > 1 else rng.randint(1, 3)):
            p, kind = prefix_episode(rng, env, meta, ref, tag)
            ops += p
            kinds.append(kind)
        seed = rng.randrange(2 ** 31)
        ref_ops = [{"op": "reset", "env": tag, "fold": meta.get("fold"), "np_seed": seed, "ref": True}] + [{"op": "step", "env": tag, "action": a} for a in ref]
        second = copy.deepcopy(ref_ops)
        if rng.random() < 0.3 and ref:
            # checkpoint of the running episode: the environment object is copied (deepcopy / pickle round trip) after j
            # steps and both objects are stepped from then on; only in the first play, so that the second play also
            # shows that being copied did not disturb the original
            how = "deepcopy" if env.get("state", {}).get("twin_class") or rng.random() < 0.5 else "pickle"
            ref_ops.insert(1 + rng.randint(0, len(ref) - 1), {"op": "fork", "env": tag, "how": how, "clone_first": rng.random() < 0.5})
        ops += ref_ops + second
        envs.append(env)
        metas.append(meta)
        per_env.append(ops)
        prefix_kinds.append(kinds)
    merged, order, mode = schedule(rng, per_env)
    # fault ops between calls
    p_clock = rng.choice([0.0, 0.1, 0.3])
    p_draw = rng.choice([0.0, 0.1, 0.3])
    lo, hi = None, None
    for a, b in chain_grids:
        lo = a if lo is None or a > lo else lo       # intersection of all chain spans' used ranges
        hi = b if hi is None or b < hi else hi
    script = []
    all_times = sorted(t for e in envs for t in e["grid"])
    for op in merged:
        if rng.random() < p_clock:
            if chain_grids:
                if lo <= hi:
                    cand = [t for t in all_times if lo <= t <= hi] or [lo]
                    script.append({"op": "clock", "t": rng.choice(cand)})
            else:
                script.append({"op": "clock", "t": rng.choice(all_times)})
        if rng.random() < p_draw:
            script.append({"op": "draw", "n": rng.randint(1, 4)})
        script.append(op)
    clock0 = chain_grids[0][0] if chain_grids else "1999-01-01T00:00:00"
    if len(chain_grids) >= 2 and not (lo <= hi):
        # chains with disjoint calendars cannot be built under one clock value: keep the first chain only
        return generate(rng, i + 1)
    return {"kind": "epi", "envs": envs, "clock0": clock0, "script": script, "prng": rng.randrange(2 ** 31),
            "meta": {"order": order, "mode": mode, "prefix": prefix_kinds, "kinds": [m["kind"] for m in metas]}}


# ---------------------------------------------------------------------------
DROP = ("seq", "end_seq", "clones", "self_view")


def norm_records(sim, tag):
    out = []
    for r in sim.sink.records:
        if r.get("env") != tag or r.get("kind") == "fork":
            continue
        # the process-wide clock as seen *between* calls is not an output of this environment
        # (nor is what a chain resolves to under that clock); inside calls both are recorded by callbacks and EXEC markers
        skip_clock = r.get("kind") in ("step", "reset")
        out.append(canon({k: v for k, v in r.items() if k not in DROP and k != "env" and not (skip_clock and k in ("clock", "chains"))}))
    return out


def split_episodes(records):
    eps, cur = [], None
    for r in records:
        if r.get("kind") == "reset":
            cur = []
            eps.append(cur)
        if cur is not None:
            cur.append(r)
    return eps


def first_diff(a, b):
    for i, (x, y) in enumerate(zip(a, b)):
        if x != y:
            keys = [k for k in set(x) | set(y) if x.get(k) != y.get(k)] if isinstance(x, dict) and isinstance(y, dict) else []
            return i, sorted(keys)[:4], x.get("kind") if isinstance(x, dict) else None, (x, y)
    if len(a) != len(b):
        return min(len(a), len(b)), ["<length {} vs {}>".format(len(a), len(b))], None, (None, None)
    return None


def sub_scenario(scenario, tag, only_ref=False):
    sc = {"kind": "epi", "envs": [copy.deepcopy(scenario["envs"][tag])], "clock0": scenario["clock0"], "prng": scenario.get("prng", 0)}
    ops = []
    seen_ref = False
    for op in scenario["script"]:
        if op.get("env") != tag:
            continue
        if only_ref:
            if op["op"] == "reset" and op.get("ref"):
                if seen_ref:
                    break
                seen_ref = True
            if not seen_ref:
                continue
        o = copy.deepcopy(op)
        o["env"] = 0
        ops.append(o)
    sc["script"] = ops
    return sc


def execute(scenario):
    violations, probes, violate, probe = epicheck.mk_violation_sink()
    inter = epi.run_scenario(scenario)
    n_env = len(scenario["envs"])
    trades = 0
    digest_parts = []
    for tag in range(n_env):
        rec_inter = norm_records(inter, tag)
        digest_parts.append(rec_inter)
        alone = epi.run_scenario(sub_scenario(scenario, tag))
        rec_alone = norm_records(alone, 0)
        trades += sum(len(r.get("rebalancing", {}).get("trades", [])) for r in rec_alone if isinstance(r, dict) and r.get("kind") == "EXEC")
        d = first_diff(rec_inter, rec_alone)
        if d is not None and n_env > 1 or (d is not None and any(op["op"] in ("clock", "draw") for op in scenario["script"])):
            i, keys, kind, (x, y) = d
            violate("isolation", "environment {} ({}) interleaved with {} other(s) differs from running alone at record {} ({}): fields {}; interleaved {} / alone {}".format(
                "ABC"[tag], scenario["meta"]["kinds"][tag], n_env - 1, i, kind, keys,
                {k: x.get(k) for k in keys} if isinstance(x, dict) else x, {k: y.get(k) for k in keys} if isinstance(y, dict) else y),
                kind=kind or "length", field=keys[0] if keys else "?", envkind=scenario["meta"]["kinds"][tag])
            break
        bad_fork = None
        for run_name, run in (("alone", alone), ("interleaved", inter)):
            for r in run.sink.records:
                if r.get("env") != (0 if run is alone else tag):
                    continue
                if r.get("kind") == "fork":
                    if r.get("exc"):
                        # the property does not promise that an environment can be copied or pickled: a refusal is
                        # counted, not judged (the floors on the probes below notice if copies stop working)
                        probe("copy_refused")
                    else:
                        probe("running_environment_copied_by_" + r["how"])
                elif r.get("kind") == "step" and r.get("clones"):
                    for cv in r["clones"]:
                        if cv != r["self_view"]:
                            keys = sorted(k for k in set(cv) | set(r["self_view"]) if cv.get(k) != r["self_view"].get(k))
                            bad_fork = "step {} ({}): the copied environment and the original, given the same action, differ in {}: copy {} / original {}".format(
                                r.get("k"), run_name, keys, {k: cv.get(k) for k in keys[:3]}, {k: r["self_view"].get(k) for k in keys[:3]})
                            break
                    else:
                        probe("copy_and_original_stepped_side_by_side")
                if bad_fork:
                    break
            if bad_fork:
                break
        if bad_fork:
            violate("isolation", "environment {}: {}".format("ABC"[tag], bad_fork), kind="fork", field="copy", envkind=scenario["meta"]["kinds"][tag])
            break
        eps = split_episodes(rec_alone)
        if len(eps) >= 2:
            ref1, ref2 = eps[-2], eps[-1]
            d = first_diff(ref1, ref2)
            if d is not None:
                i, keys, kind, (x, y) = d
                violate("repeat", "environment {}: replaying the same actions after reset differs at record {} ({}): fields {}: {} / {}".format(
                    "ABC"[tag], i, kind, keys, {k: x.get(k) for k in keys} if isinstance(x, dict) else x, {k: y.get(k) for k in keys} if isinstance(y, dict) else y),
                    kind=kind or "length", field=keys[0] if keys else "?")
                break
            fresh = epi.run_scenario(sub_scenario(scenario, tag, only_ref=True))
            rec_fresh = split_episodes(norm_records(fresh, 0))
            d = first_diff(ref1, rec_fresh[0] if rec_fresh else [])
            if d is not None:
                i, keys, kind, (x, y) = d
                violate("after_prefix_vs_fresh", "environment {}: the reference episode after prefix {} differs from a fresh environment at record {} ({}): fields {}: used {} / fresh {}".format(
                    "ABC"[tag], scenario["meta"]["prefix"][tag], i, kind, keys, {k: x.get(k) for k in keys} if isinstance(x, dict) else x,
                    {k: y.get(k) for k in keys} if isinstance(y, dict) else y), kind=kind or "length", field=keys[0] if keys else "?",
                    prefix=",".join(scenario["meta"]["prefix"][tag]))
                break
            if scenario["envs"][tag].get("state", {}).get("twin_class"):
                probe("same_named_observer_class_instanced_earlier")
                # counted on the fresh environment (no earlier episode, hence no injected observer crash that could
                # stop a delivery between the state's callback and the feature's)
                got_q = sum(1 for r in fresh.sink.records if r.get("kind") == "cb" and r.get("obs") == "feature" and r.get("cls") == "EventNBBO")
                sent_q = sum(1 for r in fresh.sink.records if r.get("kind") == "cb" and r.get("obs") == "state" and r.get("cls") == "EventNBBO")
                if sent_q and not got_q:
                    violate("isolation", "environment {}: its feature subscribes to quotes and {} were delivered to the state, but the feature received none "
                            "(a same-named class with fewer subscriptions was instanced earlier in the process)".format("ABC"[tag], sent_q),
                            kind="subscription_lost", field="cb", envkind=scenario["meta"]["kinds"][tag])
                    break
            # probes about what the prefix did
            for pk in scenario["meta"]["prefix"][tag]:
                if pk == "malformed":
                    probe("prefix_malformed_action")
                elif pk == "missing_price":
                    probe("prefix_missing_price")
                elif pk == "ruin":
                    probe("prefix_ruin")
                elif pk == "abandoned0":
                    probe("prefix_abandoned_at_step_0")
                elif pk == "length_override":
                    probe("prefix_reset_with_length_override")
                elif pk == "observer_crash":
                    crashes = [r for r in alone.sink.records if r.get("kind") == "crash"]
                    if crashes:
                        probe("prefix_observer_crash_fired")
                        api = [r for r in alone.sink.records if r.get("kind") in ("reset", "step") and r.get("exc") == "InjectedCrash"]
                        if any(r["kind"] == "reset" for r in api):
                            probe("observer_crash_during_reset")
                        if any(r["kind"] == "step" for r in api):
                            probe("observer_crash_during_step")
            if any(op.get("other_fold") and op.get("env") == tag for op in scenario["script"]):
                probe("prefix_on_other_fold")
            env_spec = scenario["envs"][tag]
            with_events = {e["t"] for e in env_spec["events"]}
            if any(g not in with_events for g in env_spec["grid"][1:]):
                probe("timesteps_without_events")
            if len(eps) >= 3:
                first_ref_now = eps[-2][0].get("now")
                prev_last = [r for r in eps[-3] if r.get("kind") in ("step", "reset")][-1].get("now")
                if prev_last is not None and first_ref_now is not None and prev_last > first_ref_now:
                    probe("clock_left_in_future_by_prefix")
    kinds = scenario["meta"]["kinds"]
    if len({tuple(e["state"]["pw_feature"]) for e in scenario["envs"] if e.get("state", {}).get("pw_feature")}) >= 2:
        probe("two_envs_with_library_weight_features_of_different_bounds")
    if sum(1 for e in scenario["envs"] if e.get("reward") == "default") >= 2:
        probe("two_envs_sharing_the_default_reward_object")
    if n_env >= 2:
        probe("interleaved_envs_ge_2")
        if kinds.count("chain") >= 2:
            # do the chain environments resolve to different leads somewhere?
            leads = []
            for tag in range(n_env):
                if kinds[tag] == "chain":
                    leads.append({r["chains"]["CH"]["lead"] for r in inter.sink.records if r.get("env") == tag and r.get("kind") == "EXEC" and r.get("chains")})
            if len(leads) >= 2 and leads[0] != leads[1]:
                probe("two_chain_envs_different_leads")
    if any(e.get("cut_at_intraday_cutoff") for e in scenario["envs"]):
        probe("folds_split_at_the_intraday_cutoff_of_a_roll_day")
    if any(e.get("folds") and e["contracts"][0].get("kind") == "chain" for e in scenario["envs"]):
        probe("chain_environment_with_folds")
    if inter.faults.get("foreign_clock_write"):
        probe("foreign_clock_write")
    if inter.faults.get("foreign_prng_draw"):
        probe("foreign_prng_draw")
    m = scenario["meta"]
    trace = "{}|{}|{}|{}".format("".join(k[0] for k in kinds), m["prefix"], m["order"], m["mode"])
    inter.stats["distinct_call_orders"] = 1
    inter.stats["trades"] = trades
    nontrivial = (n_env >= 2 or any(m["prefix"])) and trades >= 1 and len(probes) >= 1
    return {"violations": violations, "digest": core.digest(digest_parts), "probes": probes, "faults": inter.faults,
            "stats": inter.stats, "trace": trace, "nontrivial": nontrivial}


def describe(scenario):
    d = gen_epi.describe(scenario)
    d["meta"] = scenario.get("meta")
    return d


def shrink_paths(scenario):
    return [("script",)]
