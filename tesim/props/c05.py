"""C05 - margin account invariant and NLV decomposition."""
from tesim import acct, gen_acct

PROP = "C05"
PLAN = {"quick": 12000, "thorough": 600000}
TIMEOUT = 20
CHUNK = 250
RULE = ("seeded swarm of account histories as for C01 with extra weight on several margined contracts at once, shorts, "
        "flips, margin requirements 0.004..1.0 and large adverse moves (margin calls into negative cash); after every "
        "valuation / mark-to-market for all margined contracts, and after every trade for the traded one, the posted "
        "margin, the cash+margins+fully-paid decomposition, every reported weight and context() are compared with the "
        "exact ledger. Non-trivial: >=1 trade and >=1 probe; distinct = distinct abstract traces among those")
ASSUMPTIONS = [
    "same histories, contract specs, quotes and fee schedules as C01",
    "observation points are: after a trade (traded contract), after marking_to_market, after a valuation",
    "tolerance 1e-9 x max(deposit, gross notional seen) plus epsilon-flattening slack",
]
COMPONENTS = {"real": ["Exchange", "LimitOrderBook", "Broker", "Trade", "Rebalancing", "BrokerFees", "contracts"],
              "harness": ["user-defined AbstractContract subclasses", "Fraction ledger"], "stub": []}
PROBE_FLOORS = {"two_margined_open": 100, "three_margined_open": 20, "negative_cash": 10,
                "flat_after_close_zero_margin": 30, "flip_through_zero": 30, "weights_queried_before_any_valuation": 1500, "close_with_residual_rounded_away": 200}

PROFILE = {
    "oracles": ["c05"],
    "mix": {"quote": 3, "trade": 3, "rebal": 0.7, "mark": 1.5, "value": 1.5, "advance": 0.2},
    "p_margined": 0.75, "p_observe_every": 0.5, "p_frictionless": 0.1, "min_contracts": 2, "p_whole_lots": 0.15,
    "motifs": [(0.3, gen_acct.motif_margin_call), (0.15, gen_acct.motif_flip),
               (0.15, gen_acct.motif_add_margined_under_spread), (0.1, gen_acct.motif_spot_multiplier),
               (0.15, gen_acct.motif_near_close), (0.15, gen_acct.motif_one_sided_liquidation_quote), (0.12, gen_acct.motif_zero_liquidation_side)],
}


def generate(rng, i):
    sc = gen_acct.generate(rng, PROFILE)
    if i % 4 == 1:
        sc["neighbour"] = i      # an unrelated account in the same process, moved in between this one's operations
    if i % 2 == 0:
        for spec in sc["contracts"]:
            if spec["kind"] in ("spot", "margined"):
                spec["per_instance"] = True     # one user class for all instruments, requirements per instance
    return sc


def execute(scenario):
    return acct.execute(scenario, PROP)


def describe(scenario):
    return gen_acct.describe(scenario)


def shrink_paths(scenario):
    return [("script",)]


from tesim.props.c01 import simplify  # noqa: E402,F401
