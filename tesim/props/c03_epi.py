"""Environment-level clause of C03: targets submitted as actions through the
portfolio spaces (weights or numbers of contracts) are reached by the step that
executes them."""
from tesim import core, epi, gen_epi, epicheck, world

EPI_PROFILE = {
    "n_min": 3, "n_max": 9, "c_min": 1, "c_max": 3, "p_bar": 1.0, "extras_max": 3, "extra_kinds": ["nbbo", "custom"],
    "p_sparse_grid": 0.0, "p_folds": 0.0, "p_markov": 0.0, "p_warmup": 0.0, "delays": [0, 0, 1],
    "contract_kinds": ["ETF", "spot", "margined", "future"], "p_with_cash": 0.2, "p_rate": 0.0, "spaces": ["box", "box", "discrete"],
    "box_bounds": [(-1.0, 1.5)], "latencies": [0, 0, 10 ** 6], "fixed_fees": [0, 0.01], "spreads": [0, 0, 0.01], "margins": [0.0],
}


def generate(rng, i):
    if rng.random() < 0.15:
        # a futures-chain world (C11's generator: month offsets, rolls): the target is reached on the contract the
        # chain stands for at execution time, and every other member is closed
        from tesim.props import c11
        for _ in range(6):
            sc = c11.generate_single(rng, i)
            if not sc.get("construct_only") and sc["envs"][0]["space"].get("margin", 0.0) == 0.0:
                sc["chain_world"] = True
                return sc
    env = gen_epi.gen_env(rng, EPI_PROFILE)
    sp = env["space"]
    n = len(env["contracts"]) + (1 if sp.get("with_cash") else 0)
    nr_mode = rng.random() < 0.4
    if nr_mode:
        sp["as_weights"] = False
        env["cash"] = 1e7
        if sp["type"] == "box":
            sp["low"], sp["high"] = -50.0, 50.0
        else:
            sp["allocations"] = [[float(rng.choice([0, 1, 2, -1, 3, 0.5, 7.5, -12.5])) for _ in row] for row in sp["allocations"]]
    script = gen_epi.full_episode_script(rng, env)
    if nr_mode and sp["type"] == "box":
        for op in script:
            if op["op"] == "step":
                op["action"] = [float(rng.choice([0, 1, 2, -1, 3, 0.5, 0.75, -12.5, 30])) for _ in range(n)]
    if rng.random() < 0.3:
        # a second episode on the same environment (state carried over from the first - pending delayed
        # decisions, holdings - must play no role): possibly after abandoning the first one mid-way
        first = script if rng.random() < 0.5 else script[:rng.randint(1, len(script))]
        second = gen_epi.full_episode_script(rng, env)
        if nr_mode and sp["type"] == "box":
            for op in second:
                if op["op"] == "step":
                    op["action"] = [float(rng.choice([0, 1, 2, -1, 3, 0.5, 0.75, -12.5, 30])) for _ in range(n)]
        script = first + second
    return {"kind": "epi", "envs": [env], "clock0": "1999-01-01T00:00:00", "script": script, "prng": rng.randrange(2 ** 31)}


def execute(scenario):
    sim = epi.run_scenario(scenario)
    env_spec = scenario["envs"][0]
    violations, probes, violate, probe = epicheck.mk_violation_sink()
    h = sim.handles[0]
    sp = env_spec["space"]
    delay = env_spec.get("delay", 0)
    led = epicheck.ReplayLedger(h)
    trades = 0
    for ei, ep in enumerate(h.episodes):
        if ep["failed"]:
            break
        if ei > 0:
            probe("env_second_episode")
        acts = [st["action"] for st in ep["steps"]]
        for st in ep["steps"]:
            if st["done_before"]:
                break
            k = st["k"]
            if st.get("exc") == "EndOfEpisodeError":
                break       # the account was ruined (C09's business): nothing further to judge here
            if st.get("exc") is not None:
                violate("unexpected_exception", "step {} raised {}: {} [{}]".format(k, st["exc"], st.get("msg"), st.get("site")), op=k,
                        exc=st["exc"], where="step", site=st.get("site"))
                break
            ex = [r for r in sim.sink.records if r["kind"] == "EXEC" and st["seq"] < r["seq"] < st["end_seq"]]
            if len(ex) != 1 or ex[0]["rebalancing"]["post"] is None:
                continue
            r = ex[0]
            reb = r["rebalancing"]
            src = k - delay
            from tesim.props.c08 import uncanon
            want = epicheck.allocation_of_action(h, uncanon(acts[src])) if src >= 0 else epicheck.null_allocation(h)
            if any(isinstance(key, tuple) for key in want):
                want = epicheck.resolve_allocation(h, want, r["env_now"])
                probe("env_chain_target_resolved_by_model")
            trades += len(reb["trades"])
            nlv_pre = reb["pre"]["nlv"]
            tol = 1e-9 * max(abs(nlv_pre), led.scale)
            hold = r["hold_after"]
            for sym, (mult, cashreq, mreq) in led.params.items():
                pos = hold.get(sym, 0.0)
                w = want.get(sym, 0.0)
                bid, ask = r["books"].get(sym, (None, None))
                if w == 0:
                    if pos != 0:
                        violate("untargeted_not_closed", "step {}: {} still holds {} after a decision whose target omits it".format(k, sym, pos), op=k, kind="untargeted")
                    continue
                if sp.get("as_weights", True):
                    side = ask if w > 0 else bid
                    if abs(w * nlv_pre / (side * float(mult))) < 1e-4:
                        continue    # dust: positions below the broker's flattening epsilon (1e-7 contracts) are dropped
                    got = pos * float(mult) * side
                    if abs(got - w * nlv_pre) > tol * 10:
                        violate("target_not_reached", "step {}: {}: pos*mult*quote = {} but w*NLV_pre = {} (w={}, NLV_pre={})".format(k, sym, got, w * nlv_pre, w, nlv_pre),
                                op=k, kind="weight_target_env")
                else:
                    if abs(pos - w) > 1e-9 * max(1.0, abs(w)):
                        violate("target_not_reached", "step {}: {} holds {} contracts but the decision asks for {}".format(k, sym, pos, w), op=k, kind="nr_target_env")
                    elif w != int(w):
                        probe("env_fractional_contract_target_reached")
                if violations:
                    break
            if violations:
                break
            probe("env_level_target_checked")
        if violations:
            break
    trace = "epi|{}|w{}|d{}|{}".format(sp["type"], int(sp.get("as_weights", True)), delay, "".join(c["kind"][0] for c in env_spec["contracts"]))
    sim.stats["trades"] = trades
    sim.stats["rebalances"] = sum(1 for r in sim.sink.records if r["kind"] == "EXEC")
    return {"violations": violations, "digest": core.digest(sim.log_for_digest()), "probes": probes, "faults": sim.faults,
            "stats": sim.stats, "trace": trace, "nontrivial": trades >= 1 and len(probes) >= 1}


generate = gen_epi.with_backtest_driver(generate, 0.2)
