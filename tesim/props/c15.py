"""C15 - episodes stay inside their fold; episode length and walk-forward are exact."""
import copy
import math
from datetime import datetime, timedelta

import numpy as np

from tesim import core, epi, gen_epi, epicheck
from tesim.epimodel import Delivery

PROP = "C15"
PLAN = {"quick": 1200, "thorough": 120000}
TIMEOUT = 60
CHUNK = 40
RULE = ("seeded configurations: grids of 3-40 points (some timesteps without events), fold dictionaries (disjoint, overlapping, "
        "nested, single-point, windows off the grid points), episode_length n from 1 to fold size+1, sampling_span on/off, and "
        "walk-forward parameters (train/test sizes, sliding or expanding) whose Folds.as_time() output is fed back as the folds "
        "of a new Transmitter and actually run; per configuration many resets under different numpy PRNG seeds with foreign "
        "draws in between (F8), enough (>= 25 k ln k + 20) for every one of the k fitting starts to be drawn in uniform mode. "
        "Checked: every env.now() inside the fold's inclusive window, visited timesteps consecutive event-bearing timesteps of "
        "the fold, exactly n decisions before done, start only where the episode fits, every fitting start reached, reset "
        "refused when nothing fits, walk-forward test windows disjoint, ordered, of the requested size and right after their "
        "training window. Non-trivial: >=2 resets, >=1 completed episode, >=1 probe; distinct = (grid size, fold shape, n, "
        "span, walk-forward parameters, start set)")
ASSUMPTIONS = [
    "every event-bearing timestep carries a non-latent event, so the clock after reset/step is the time of that timestep's last event and identifies the visited timestep",
    "every fold used has at least one event-bearing timestep (resetting into a fold with none ends in a bare StopIteration no property speaks about)",
    "reachability of every fitting start is judged in uniform mode only, with k <= 8 starts; miss probability < 1e-9 by the draw budget",
]
COMPONENTS = {"real": ["Transmitter._reset/_next/walk_forward", "Folds.as_time", "PartitionTimeRanges", "TradingEnv.reset/step"],
              "harness": ["delivery model", "seed sweeps"], "stub": []}
PROBE_FLOORS = {"episode_length_exact": 248, "refused_when_nothing_fits": 30, "all_starts_reached": 29, "overlapping_folds": 50,
                "walk_forward_run": 29, "walk_forward_on_nanosecond_stamps": 20, "sampling_span": 21, "reset_argument_override": 20, "length_equals_fold_size": 30, "foreign_prng_draws": 57, "resets_on_other_folds_in_between": 15}

PROFILE = {
    "n_min": 3, "n_max": 14, "n_long": 40, "p_long": 0.1, "c_min": 1, "c_max": 2, "p_bar": 1.0, "extras_max": 4,
    "extra_kinds": ["nbbo", "custom"], "p_sparse_grid": 0.3, "p_folds": 0.7, "p_markov": 0.2, "p_warmup": 0.2,
    "delays": [0, 0, 1], "contract_kinds": ["ETF", "spot"], "p_with_cash": 0.1, "latencies": [0, 0, 10 ** 6],
    "grid_styles": ["regular", "irregular", "daily"],
}


def generate(rng, i):
    env = gen_epi.gen_env(rng, PROFILE)
    from tesim.props.c04 import ensure_nonlatent
    ensure_nonlatent(env)
    n = len(env["grid"])
    wf = None
    if rng.random() < 0.3 and n >= 4:
        env["folds"] = None
        test = rng.randint(1, max(1, n // 3))
        train = rng.randint(1, max(1, n - test - 1))
        wf = {"train": train, "test": test, "sliding": rng.random() < 0.5}
    d = Delivery(env, gen_epi.auto_disc(env))
    folds = list(env["folds"]) if env["folds"] else [None]
    script = []
    mode = rng.choice(["length", "length", "full"])
    if wf:
        # folds are filled in at execution time from the real walk_forward(); run one episode per test window
        return {"kind": "epi", "envs": [env], "clock0": "1999-01-01T00:00:00", "script": [], "prng": rng.randrange(2 ** 31),
                "wf": wf, "wf_length": rng.choice([None, None, 1, 2])}
    fold = rng.choice(folds)
    steps = d.fold_steps(fold)
    m = len(steps)
    if mode == "length" and m >= 1:
        nlen = rng.randint(1, m + 1) if rng.random() < 0.8 else m - 1 if m > 1 else 1
        env["episode_length"] = nlen
        if rng.random() < 0.3:
            env["sampling_span"] = rng.choice([1, 2, 5, 50])
        k = m - nlen            # number of fitting starts (needs nlen+1 timesteps)
        if k <= 0:
            reps = 2
        elif k <= 8 and env["sampling_span"] is None:
            reps = int(25 * k * math.log(max(k, 2))) + 20
        else:
            reps = rng.randint(3, 12)
        full_every = max(1, reps // 4)
        # a one-off override through reset(episode_length=m): "the episode will stop after this number of states",
        # i.e. m timesteps and m-1 decisions; it must not change what later plain resets do
        override_at = rng.randrange(reps) if rng.random() < 0.4 and m >= 2 else None
        for r in range(reps):
            if rng.random() < 0.3:
                script.append({"op": "draw", "n": rng.randint(1, 5)})
            if r == override_at:
                mm = rng.randint(2, m)
                script.append({"op": "reset", "env": 0, "fold": fold, "np_seed": rng.randrange(2 ** 31), "episode_length": mm})
                for _ in range(mm):
                    script.append({"op": "step", "env": 0, "action": null_action(env)})
                continue
            script.append({"op": "reset", "env": 0, "fold": fold, "np_seed": rng.randrange(2 ** 31)})
            if r % full_every == 0 or (override_at is not None and r == override_at + 1):
                for _ in range(nlen + 1):     # one call more than needed: the extra one must be refused
                    script.append({"op": "step", "env": 0, "action": null_action(env)})
    else:
        for f in folds:
            st = d.fold_steps(f)
            if not st:
                continue
            script.append({"op": "reset", "env": 0, "fold": f, "np_seed": rng.randrange(2 ** 31)})
            for _ in range(len(st)):
                script.append({"op": "step", "env": 0, "action": null_action(env)})
    if mode == "length" and len(folds) >= 2 and script and rng.random() < 0.4:
        # resets on the other folds in between (where the configured length may not fit and the request is refused):
        # what a refused or foreign-fold request leaves behind must not leak into the next episode of this fold
        others = [f for f in folds if f != fold]
        for _ in range(rng.randint(1, 3)):
            pos = rng.choice([j for j, op in enumerate(script) if op["op"] == "reset"])
            extra = [{"op": "reset", "env": 0, "fold": rng.choice(others), "np_seed": rng.randrange(2 ** 31), "foreign_fold": True}]
            for _ in range(rng.randint(0, 2)):
                extra.append({"op": "step", "env": 0, "action": null_action(env)})
            script[pos:pos] = extra
    if not script:
        script = [{"op": "reset", "env": 0, "fold": folds[0], "np_seed": 1}]
    return {"kind": "epi", "envs": [env], "clock0": "1999-01-01T00:00:00", "script": script, "prng": rng.randrange(2 ** 31)}


_generate_base = generate


def generate(rng, i):
    sc = gen_epi.add_timesteps_later(_generate_base(rng, i), 0.2)
    env = sc["envs"][0]
    if env.get("warmup_s") is not None and not env.get("markov") and i % 2 == 0:
        # the first grid timestep bears only events that are older than the warm-up window (a close stamped before a
        # long week-end): it is event-bearing all the same, episodes of its fold start there
        g0 = min(env["grid"])
        old = core.iso(core.parse_t(g0) - timedelta(seconds=env["warmup_s"] + 3600))
        hit = False
        for e in env["events"]:
            if e["t"] <= g0:
                e["t"] = old if e["t"] == g0 else min(e["t"], old)
                hit = True
        if hit:
            env["first_timestep_bears_only_events_older_than_the_warmup"] = True
    return sc


def null_action(env):
    sp = env["space"]
    if sp["type"] == "discrete":
        return 0
    return [0.0] * (len(env["contracts"]) + (1 if sp.get("with_cash") else 0))


def to_dt(x):
    if isinstance(x, np.datetime64):
        x = x.astype("datetime64[us]").astype(datetime)
    if hasattr(x, "to_pydatetime"):
        x = x.to_pydatetime()
    return x


def walk_forward_stage(scenario, violate, probe):
    """Runs the real walk_forward on a transmitter holding the grid, checks the
    index arithmetic, and returns a derived scenario whose folds are the test
    windows given by Folds.as_time()."""
    env = scenario["envs"][0]
    wf = scenario["wf"]
    sink = epi.Sink()
    h = epi.EnvHandle(0, env, sink)
    tr = h.transmitter
    n = len(set(env["grid"]))
    try:
        folds = tr.walk_forward(wf["train"], wf["test"], wf["sliding"])
        ft = folds.as_time()
    except Exception as e:
        violate("unexpected_exception", "walk_forward({}) raised {!r}".format(wf, e), exc=core.exc_name(e), where="walk_forward")
        return None
    train, test = wf["train"], wf["test"]
    exp = []
    s = 0
    while s + train + test <= n:
        exp.append(((s if wf["sliding"] else 0), s + train - 1, s + train, s + train + test - 1))
        s += test
    got = list(zip([int(x) for x in folds.train_start], [int(x) for x in folds.train_end],
                   [int(x) for x in folds.test_start], [int(x) for x in folds.test_end]))
    if got != exp:
        kind = "count" if len(got) != len(exp) else "windows"
        violate("walk_forward", "walk_forward(train={}, test={}, sliding={}) over {} timesteps gave (train_start, train_end, test_start, test_end) = {} expected {}".format(
            train, test, wf["sliding"], n, got[:6], exp[:6]), kind=kind)
        return None
    # statement-level checks (independent of the closed form above)
    for j, (a, b, c, e) in enumerate(got):
        if e - c + 1 != test or c != b + 1 or (j > 0 and c <= got[j - 1][3]):
            violate("walk_forward", "test window {} = [{},{}] after training [{},{}] is not disjoint/ordered/of size {}/adjacent".format(j, c, e, a, b, test), kind="shape")
            return None
    G = sorted(set(core.parse_t(x) for x in env["grid"]))
    times = [(to_dt(a), to_dt(b)) for a, b in zip(ft.test_start, ft.test_end)]
    for (a, b), (_, _, c, e) in zip(times, got):
        if a != G[c] or b != G[e]:
            violate("walk_forward", "as_time() maps test window [{},{}] to {}..{} expected {}..{}".format(c, e, a, b, G[c], G[e]), kind="as_time")
            return None
    if len(G) % 3 != 2 and not nanosecond_arm(G, wf, got, violate, probe):
        return None
    sc = copy.deepcopy(scenario)
    e2 = sc["envs"][0]
    e2["folds"] = {"wf{}".format(j): [core.iso(a), core.iso(b)] for j, (a, b) in enumerate(times)}
    d = Delivery(e2, gen_epi.auto_disc(e2))
    script = []
    L = scenario.get("wf_length")
    e2["episode_length"] = L
    for j in range(len(times)):
        st = d.fold_steps("wf{}".format(j))
        if not st or (L and len(st) < L + 1):
            continue
        script.append({"op": "reset", "env": 0, "fold": "wf{}".format(j), "np_seed": 1000 + j})
        for _ in range(L if L else len(st) - 1):
            script.append({"op": "step", "env": 0, "action": null_action(e2)})
    sc["script"] = script
    if script:
        probe("walk_forward_run")
    return sc


def nanosecond_arm(G, wf, got, violate, probe):
    """The same grid stamped by a feed with nanosecond resolution (every stamp gets a few hundred nanoseconds on top):
    the windows in time must begin and end exactly on grid stamps, and an episode on each test window - the windows
    handed back as folds, one quote per timestep - visits exactly that window's timesteps."""
    import pandas as pd
    from tradingenv.transmitter import Transmitter
    from tradingenv.env import TradingEnv
    from tradingenv.contracts import ETF
    from tradingenv.spaces import BoxPortfolio
    from tradingenv.events import EventNBBO
    import warnings
    Gn = [pd.Timestamp(g) + pd.Timedelta((37 * k) % 900 + 1, unit="ns") for k, g in enumerate(G)]
    try:
      with warnings.catch_warnings():
          warnings.simplefilter("ignore")     # (the track record stores microsecond stamps and says so)
          ft = Transmitter(list(Gn)).walk_forward(wf["train"], wf["test"], wf["sliding"]).as_time()
          cols = [list(ft.train_start), list(ft.train_end), list(ft.test_start), list(ft.test_end)]
          for j, idx in enumerate(got):
              for name, col, k in zip(("train_start", "train_end", "test_start", "test_end"), cols, idx):
                  if pd.Timestamp(col[j]) != Gn[k]:
                      violate("walk_forward", "nanosecond-stamped grid: as_time() gives {} {} for window {}, expected the grid stamp {} (position {})".format(
                          name, pd.Timestamp(col[j]).isoformat(), j, Gn[k].isoformat(), k), kind="as_time_ns")
                      return False
          folds = {"wf{}".format(j): [cols[2][j], cols[3][j]] for j in range(len(got))}
          tr = Transmitter(list(Gn), folds)
          c = ETF("NSX")
          tr.add_events([EventNBBO(t, c, 100.0 + k, 100.0 + k) for k, t in enumerate(Gn)])
          env = TradingEnv(action_space=BoxPortfolio([c]), transmitter=tr)
          for j, (_, _, a, b) in enumerate(got):
              if b == a:
                  continue        # a one-timestep window has no decision to make
              env.reset(fold="wf{}".format(j))
              visited = [pd.Timestamp(env.now())]
              for _ in range(len(G) + 2):
                  _o, _r, done, _i = env.step(np.array([0.0]))
                  visited.append(pd.Timestamp(env.now()))
                  if done:
                      break
              if visited != Gn[a:b + 1]:
                  violate("walk_forward", "nanosecond-stamped grid: the episode on test window {} (positions {}..{}) visited {} timesteps {}.. expected the {} timesteps of the window".format(
                      j, a, b, len(visited), [v.isoformat() for v in visited[:2]], b - a + 1), kind="episode_ns")
                  return False
          probe("walk_forward_on_nanosecond_stamps")
    except Exception as e:
        site = core.library_site(e)
        if site is None:
            raise       # the harness's own failure
        violate("unexpected_exception", "nanosecond-stamped grid: walk-forward / episode raised {!r} ({})".format(e, site), exc=core.exc_name(e), where="walk_forward_ns")
        return False
    return True


def execute(scenario):
    violations, probes, violate, probe = epicheck.mk_violation_sink()
    sc = scenario
    with core.sim_context(clock0=core.parse_t(scenario["clock0"]), prng_seed=scenario.get("prng", 0)):
        if scenario.get("wf"):
            sc = walk_forward_stage(scenario, violate, probe)
            if sc is None:
                return {"violations": violations, "digest": core.digest([violations]), "probes": probes, "faults": {},
                        "stats": {"ops": 0}, "trace": "wf-fail", "nontrivial": False}
        sim = epi.EpiSim(sc)
        sim.run()
    env_spec = sc["envs"][0]
    d = Delivery(env_spec, gen_epi.auto_disc(env_spec))
    h = sim.handles[0]
    L_conf = env_spec.get("episode_length")
    starts_seen = {}
    completed = 0
    for ep in h.episodes:
        fold = ep["reset"]["fold"]
        # number of decisions of this episode: the configured n, or m-1 for a one-off reset(episode_length=m)
        arg = ep["reset"].get("episode_length_arg")
        L = (arg - 1) if arg else L_conf
        if arg:
            probe("reset_argument_override")
        steps_fold = d.fold_steps(fold)
        a, b = d.fold_window(fold)
        fits = len(steps_fold) - (L or 0) if L else (1 if steps_fold else 0)
        if ep["failed"]:
            if L and fits <= 0:
                probe("refused_when_nothing_fits")
                continue
            violate("unexpected_exception", "reset(fold={}) raised {}: {} although {} starts fit".format(fold, ep["reset"]["exc"], ep["reset"].get("msg"), fits),
                    exc=ep["reset"]["exc"], where="reset")
            break
        if L and fits <= 0:
            violate("accepted_when_nothing_fits", "reset(fold={}) with episode_length {} succeeded but the fold has only {} event-bearing timesteps".format(
                fold, L, len(steps_fold)), kind="fit")
            break
        visited = [ep["reset"]["now"]]
        n_steps = 0
        refused_extra = 0
        for st in ep["steps"]:
            if st["done_before"]:
                if st.get("exc") == "EndOfEpisodeError":
                    refused_extra += 1
                else:
                    violate("step_after_done", "a step after done was not refused (exc={})".format(st.get("exc")), kind="after_done")
                continue
            if st.get("exc") is not None:
                violate("unexpected_exception", "step raised {}: {} [{}]".format(st["exc"], st.get("msg"), st.get("site")), exc=st["exc"], where="step", site=st.get("site"))
                break
            n_steps += 1
            visited.append(st["now"])
            if st.get("done"):
                completed += 1
        if violations:
            break
        # the clock shows the time of the last event processed; map it to the timestep it belongs to
        last_of = {d.bucket[g][-1][0]: g for g in d.timesteps_with_events}
        unknown = [v for v in visited if v not in last_of]
        if unknown:
            violate("not_fold_timestep", "the clock {} is not the last event of any event-bearing timestep".format(unknown[0]), kind="clock")
            break
        visited = [last_of[v] for v in visited]
        for v in visited:
            if not (a <= v <= b):
                violate("outside_fold", "the clock {} left the fold window [{}, {}]".format(v, a, b), kind="window")
                break
        if violations:
            break
        if visited[0] not in steps_fold:
            violate("not_fold_timestep", "episode starts at {} which is not an event-bearing timestep of fold {}".format(visited[0], fold), kind="start")
            break
        i0 = steps_fold.index(visited[0])
        if visited != steps_fold[i0:i0 + len(visited)]:
            violate("not_consecutive", "visited timesteps {} are not consecutive timesteps of the fold {}".format(visited[:8], steps_fold[i0:i0 + 8]), kind="consecutive")
            break
        done_reached = bool(ep["steps"]) and any(st.get("done") for st in ep["steps"])
        if L:
            if i0 + L + 1 > len(steps_fold):
                violate("start_does_not_fit", "episode of {} decisions starts at fold index {} of {} timesteps".format(L, i0, len(steps_fold)), kind="fit")
                break
            if not arg:
                starts_seen.setdefault(fold, set()).add(i0)
            if done_reached:
                if n_steps != L:
                    violate("episode_length", "episode_length {} but the episode had {} decisions before done".format(L, n_steps), kind="count", diff=n_steps - L)
                    break
                probe("episode_length_exact")
                if L + 1 == len(steps_fold):
                    probe("length_equals_fold_size")
            elif n_steps > L:
                violate("episode_length", "episode_length {} but {} decisions were accepted without done".format(L, n_steps), kind="count", diff=n_steps - L)
                break
        else:
            if i0 != 0:
                violate("start_not_first", "an episode without length limit starts at fold index {}".format(i0), kind="start")
                break
            if done_reached and n_steps != len(steps_fold) - 1:
                violate("episode_length", "fold of {} timesteps gave {} decisions".format(len(steps_fold), n_steps), kind="full_count", diff=n_steps - (len(steps_fold) - 1))
                break
    L = L_conf
    if not violations and L and env_spec.get("sampling_span") is None and not scenario.get("wf"):
        for fold, seen in starts_seen.items():
            k = len(d.fold_steps(fold)) - L
            n_resets = sum(1 for ep in h.episodes if ep["reset"]["fold"] == fold and not ep["failed"] and not ep["reset"].get("episode_length_arg"))
            if 0 < k <= 8 and n_resets >= int(25 * k * math.log(max(k, 2))) + 20:
                missing = sorted(set(range(k)) - seen)
                if missing:
                    violate("start_unreachable", "over {} resets the starts {} of the {} fitting ones were never drawn (seen {})".format(
                        n_resets, missing, k, sorted(seen)), kind="first" if 0 in missing else ("last" if k - 1 in missing else "middle"))
                else:
                    probe("all_starts_reached")
    if env_spec.get("sampling_span") is not None and L:
        probe("sampling_span")
    if sim.faults.get("foreign_prng_draw"):
        probe("foreign_prng_draws")
    if any(op.get("foreign_fold") for op in scenario["script"]):
        probe("resets_on_other_folds_in_between")
    folds = env_spec.get("folds") or {}
    if len(folds) >= 2:
        wins = sorted((core.parse_t(a), core.parse_t(b)) for a, b in folds.values())
        if any(w2[0] <= w1[1] for w1, w2 in zip(wins, wins[1:])):
            probe("overlapping_folds")
    trace = "g{}|f{}|L{}|s{}|wf{}|{}".format(len(d.G), len(folds), L, env_spec.get("sampling_span"),
                                            scenario.get("wf"), sorted((str(k), sorted(v)) for k, v in starts_seen.items()))
    sim.stats["sim_seconds"] = int((d.G[-1] - d.G[0]).total_seconds())
    return {"violations": violations, "digest": core.digest(sim.log_for_digest()), "probes": probes, "faults": sim.faults,
            "stats": sim.stats, "trace": trace, "nontrivial": sim.stats["resets"] >= 2 and completed >= 1 and len(probes) >= 1}


def describe(scenario):
    d = gen_epi.describe(scenario)
    d["wf"] = scenario.get("wf")
    return d


def shrink_paths(scenario):
    return [("script",)]


generate = gen_epi.with_backtest_driver(generate, 0.2)
