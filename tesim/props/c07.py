"""C07 - track record and rewards are a faithful, replayable account of the episode."""
import copy
import math
from fractions import Fraction as F

from tesim import core, epi, gen_epi, epicheck
from tesim.core import canon
from tesim.epimodel import Delivery

PROP = "C07"
PLAN = {"quick": 3000, "thorough": 150000}
TIMEOUT = 40
CHUNK = 60
OWN = ("EventReset", "EventStep", "EventDone", "EventNewDate")
RULE = ("seeded full episodes over spot, user-defined, margined and futures contracts with spread, fee schedules, interest-rate "
        "paths, latency, delay, every reward class, bar-shaped data plus extra events, occasional non-ruinous price shocks; a "
        "separate 10% sub-profile injects fees that ruin the account during execution (F11). After the episode: one "
        "track-record entry per executed decision with strictly increasing stamps equal to the time of the latest event "
        "delivered before that execution; an independent Fraction ledger fed only with recorded trades, recorded interest "
        "and the book snapshots taken at each execution must reproduce every pre/post NLV, holdings, weights, margins and "
        "commissions; TrackRecord.net_liquidation_value()/transaction_costs() equal column-wise recomputation; each reward "
        "equals the stated function; simple returns compound to NLV_final/NLV_initial when no interest accrues and latency "
        "is 0. Non-trivial: >=2 entries, >=1 trade, >=1 probe; distinct = (reward, delay, latency class, contract kinds, "
        "fee/rate regime, entries, trade-count pattern)")
ASSUMPTIONS = [
    "bar-shaped data (a quote for every contract at every timestep); in-space actions; NLV stays positive except in the F11 sub-profile",
    "tolerance 1e-9 x max(deposit, largest traded notional); rewards 1e-9 relative",
    "the F11 sub-profile (decision's own costs ruin the account) is an open known finding (D7) and lives apart so the other 90% of runs cannot meet it",
]
COMPONENTS = {"real": ["TradingEnv", "Transmitter", "Broker", "TrackRecord", "Rebalancing", "Trade", "rewards.*", "Exchange"],
              "harness": ["recording observers", "independent Fraction ledger", "reward model"], "stub": []}
PROBE_FLOORS = {"step_without_trade": 100, "fees_positive": 300, "delay_positive": 97, "reward_clipped": 20, "plain_log_return_beyond_2": 12,
                "reward_negative_with_risk_aversion": 20, "interest_credited": 100, "compounding_checked": 16,
                "own_costs_ruin_injected": 19, "futures_chain_world": 45, "feature_values_account_at_every_quote": 80, "xy_rewards_checked": 45, "xy_reward_clip_binds": 150, "snapshot_with_margins_consistent": 2500, "entries_reread_at_the_end": 250}

PROFILE = {
    "n_min": 3, "n_max": 12, "n_long": 40, "p_long": 0.1, "c_min": 1, "c_max": 3, "p_bar": 1.0, "extras_max": 8,
    "extra_kinds": ["nbbo", "nbbo", "custom", "obs"], "p_sparse_grid": 0.0, "p_folds": 0.2, "p_markov": 0.1, "p_warmup": 0.1,
    "delays": [0, 0, 1, 2], "contract_kinds": ["ETF", "spot", "margined", "future"], "p_with_cash": 0.2,
    "rewards": gen_epi.REWARDS + [{"cls": "RewardSimpleReturn"}, {"cls": "RewardSimpleReturn"}],
    "fixed_fees": [0, 0, 0.01, 0.5], "p_rate": 0.4, "spreads": [0, 0.001, 0.01], "margins": [0.0, 0.0, 0.02],
}


def generate_chain(rng, i):
    """A futures-chain world (C11's generator: rolls, latency windows crossing a last-trading instant)
    judged as an account: ledger replay, rewards and aggregations across the rolls."""
    from tesim.props import c11
    for _ in range(6):
        sc = c11.generate_single(rng, i)
        if not sc.get("construct_only"):
            break
    else:
        return None
    env = sc["envs"][0]
    env["reward"] = rng.choice(PROFILE["rewards"])
    env["state"] = {"type": "rec", "feature": rng.random() < 0.5, "k": 2}
    env["fees"]["fixed"] = rng.choice([0, 0, 0.5])
    sc["f11"] = False
    sc["chain_world"] = True
    return sc


def generate_xy(rng, i):
    """The tabular environment's reward: the log NLV ratio since the last pre-trade snapshot, divided by a scale
    estimated from the price table (mean over assets of the standard deviation of log price changes up to
    transformer_end), clipped to +/- reward_clipping, negative values multiplied by (1 + risk_aversion)."""
    from tesim import xy
    tb = xy.gen_tables(rng, {"n_min": 40, "n_max": 90, "freqs": ["D", "B"]})
    for r, row in enumerate(tb["Y"]):
        for j, v in enumerate(row):
            if v != v:
                row[j] = tb["Y"][r - 1][j] if r > 0 else 100.0
    # a few large moves so that the clip binds
    for _ in range(rng.randint(1, 4)):
        r = rng.randrange(5, len(tb["Y"]))
        f = rng.choice([0.8, 1.25, 0.9, 1.15])
        for rr in range(r, len(tb["Y"])):
            tb["Y"][rr][0] *= f
    n = len(tb["dates"])
    kw = {"window": rng.choice([1, 2]), "stride": None, "spread": rng.choice([0, 0.001]), "transformer": rng.choice([None, "z-score"]),
          "clip": rng.choice([5.0, 3.0]), "steps_delay": rng.choice([0, 1]), "margin": 0.0, "calendar": "24/7", "latency": 0,
          "reward_clipping": rng.choice([0.5, 1.5, 2.0, 4.0]), "risk_aversion": rng.choice([0.0, 0.0, 0.1, 0.5]),
          "fee": rng.choice([0.0, 0.001])}
    if rng.random() < 0.3:
        kw["transformer_end"] = tb["dates"][rng.randint(n // 2, n - 1)]
    ny = len(tb["ycols"])
    acts = [[round(rng.uniform(-0.8, 1.0), 3) for _ in range(ny)] for _ in range(9)]
    return {"kind": "xy", "tables": tb, "kwargs": kw, "fold": None, "actions": acts, "np_seed": rng.randrange(2 ** 31)}


def execute_xy(scenario):
    import math
    from tesim import xy
    violations, probes, violate, probe = epicheck.mk_violation_sink()
    kw = scenario["kwargs"]
    tb = scenario["tables"]
    log = []
    n_checked = 0
    with core.sim_context():
        try:
            env, X0, Y0, rate0 = xy.make_env(scenario)
        except Exception as e:
            return {"violations": [], "digest": core.digest(["build", core.exc_name(e)]), "probes": {"build_refused": 1}, "faults": {},
                    "stats": {"ops": 1}, "trace": "xy-refused", "nontrivial": False}
        try:
            recs = xy.run_episode(env, scenario["actions"], fold=None, np_seed=scenario.get("np_seed", 0))
        except Exception as e:
            return {"violations": [], "digest": core.digest(["reset", core.exc_name(e)]), "probes": {"reset_refused": 1}, "faults": {},
                    "stats": {"ops": 1}, "trace": "xy-reset-refused", "nontrivial": False}
    # the scale, from the given table only
    end = kw.get("transformer_end") or (kw.get("end") or tb["dates"][-1])
    rows = [row for d, row in zip(tb["dates"], tb["Y"]) if d <= end]
    sds = []
    for j in range(len(tb["ycols"])):
        lr = [math.log(rows[k][j] / rows[k - 1][j]) for k in range(1, len(rows))]
        m = sum(lr) / len(lr)
        sds.append(math.sqrt(sum((x - m) ** 2 for x in lr) / (len(lr) - 1)))
    scale = sum(sds) / len(sds)
    spec = {"cls": "LogReturn", "scale": scale, "clip": kw["reward_clipping"], "risk_aversion": kw["risk_aversion"]}
    for k, r in enumerate(recs):
        log.append([k, r.get("exc"), core.canon(r.get("reward")), core.canon(r.get("nlv"))])
        if r["kind"] != "step" or r.get("exc") is not None or r.get("last") is None or isinstance(r["nlv"], str):
            continue
        want = epicheck.reward_model(spec, r["nlv"], r["last"]["pre"])
        if abs(r["reward"] - want) > 1e-9 * max(1.0, abs(want)):
            violate("reward_definition", "tabular environment: step {} reward {} but log(NLV {} / pre-trade NLV {}) / scale {} clipped to +/-{} with risk aversion {} is {}".format(
                k, r["reward"], r["nlv"], r["last"]["pre"], scale, kw["reward_clipping"], kw["risk_aversion"], want), op=k, cls="LogReturn", kind="xy")
            break
        n_checked += 1
        raw = math.log(r["nlv"] / r["last"]["pre"]) / scale
        if abs(raw) > kw["reward_clipping"]:
            probe("xy_reward_clip_binds")
        if raw < 0 and kw["risk_aversion"] > 0:
            probe("xy_negative_reward_with_risk_aversion")
    probe("xy_rewards_checked") if n_checked else None
    return {"violations": violations, "digest": core.digest(log), "probes": probes, "faults": {}, "stats": {"ops": len(recs), "steps": len(recs)},
            "trace": "xy|rc{}|ra{}|c{}|n{}".format(kw["reward_clipping"], kw["risk_aversion"], kw["clip"], n_checked), "nontrivial": n_checked >= 2}


def generate(rng, i):
    if i % 8 == 6:
        return generate_xy(rng, i)
    if i % 8 == 7:
        sc = generate_chain(rng, i)
        if sc is not None:
            return sc
    pf = dict(PROFILE)
    if rng.random() < 0.15:
        pf["vol"] = 0.15                 # F4: non-ruinous shocks
    env = gen_epi.gen_env(rng, pf)
    # markov reset needs every contract quoted in the first bucket: true for bar-shaped data
    f11 = rng.random() < 0.1
    if f11:
        env["fees"]["fixed"] = env["cash"] * rng.choice([0.6, 0.35, 1.1])
        env["space"] = {"type": "box", "low": -1.0, "high": 1.0, "as_weights": True, "fractional": True, "margin": 0.0}
    if rng.random() < 0.3:
        # a feature that values the account at every quote, also between the same-stamp quotes of one bar
        env["state"] = {"type": "rec", "feature": True, "k": env["state"].get("k", 2), "reads_account": True}
    fold = rng.choice(list(env["folds"])) if env["folds"] else None
    script = gen_epi.full_episode_script(rng, env, fold=fold, unique=False)
    if rng.random() < 0.3:
        # steps that trade nothing: repeat the previous action (frictionless repeat still may trade dust) or hold cash
        for op in script:
            if op["op"] == "step" and rng.random() < 0.3 and env["space"]["type"] == "box":
                op["action"] = [0.0] * len(op["action"])
    sc = {"kind": "epi", "envs": [env], "clock0": "1999-01-01T00:00:00", "script": script, "prng": rng.randrange(2 ** 31), "f11": f11}
    if i % 9 == 4 and not f11 and env["space"]["type"] == "box" and len(env["grid"]) >= 3:
        # a step over which the account multiplies: every quote from some timestep on is 40 times higher and the
        # account is long throughout (|log return| of that step is well above 2; no stated reward caps it unless it says so).
        # Laid out without consuming draws of the generator's stream
        import random
        r2 = random.Random("rally:{}".format(i))
        grid = sorted(set(env["grid"]))
        cut = grid[r2.randint(1, len(grid) - 1)]
        for e in env["events"]:
            if e["type"] == "nbbo" and e["t"] >= cut:
                e["bid"] *= 40.0
                e["ask"] *= 40.0
        hi = env["space"].get("high", 1.0)
        for op in script:
            if op["op"] == "step" and isinstance(op["action"], list):
                a = [min(abs(x), hi) for x in op["action"]]
                if sum(a) < 0.3 and a:
                    a[0] = min(hi, 0.5)
                op["action"] = a
        if r2.random() < 0.6:
            env["reward"] = {"cls": "RewardLogReturn"}
        sc["rally"] = True
    return sc


def execute(scenario):
    if scenario.get("kind") == "xy":
        return execute_xy(scenario)
    sim = epi.run_scenario(scenario)
    env_spec = scenario["envs"][0]
    d = Delivery(env_spec, gen_epi.auto_disc(env_spec))
    violations, probes, violate, probe = epicheck.mk_violation_sink()
    h = sim.handles[0]
    recs = [r for r in sim.sink.records if r.get("env") == 0]
    if env_spec.get("state", {}).get("reads_account"):
        probe("feature_values_account_at_every_quote")
    if scenario.get("chain_world"):
        probe("futures_chain_world")
    if scenario.get("f11"):
        probe("own_costs_ruin_injected")
        sim.fault("fee_shock")
    n_entries_total = 0
    n_trades_total = 0
    pattern = []
    for ep in h.episodes:
        if ep["failed"]:
            violate("unexpected_exception", "reset raised {}: {}".format(ep["reset"]["exc"], ep["reset"].get("msg")), exc=ep["reset"]["exc"], where="reset")
            break
        ledger = epicheck.ReplayLedger(h)
        entries = []
        last_market_t = None
        stamps = []
        rewards = []
        initial_nlv = ep["reset"]["nlv"]
        tainted = False
        end_seq = ep["steps"][-1]["end_seq"] if ep["steps"] else ep["reset"]["end_seq"]
        # walk the episode's log in order
        step_of = {}
        for st in ep["steps"]:
            step_of[st["seq"]] = st
        cur_step = None
        refused = set()
        for r in recs:
            if not (ep["reset"]["seq"] < r["seq"] <= end_seq):
                continue
            if r["kind"] == "cb" and r["obs"] == "state" and r["cls"] not in OWN:
                last_market_t = r["time"]
            elif r["kind"] == "step":
                cur_step = r
            elif r["kind"] == "EXEC":
                reb = r["rebalancing"]
                changed = {a: b for a, b in (r.get("hold_after") or {}).items() if a != "USD"} != {a: b for a, b in r["hold_before"].items() if a != "USD"}
                recorded = r.get("n_rec_after", r["n_rec_before"]) == r["n_rec_before"] + 1
                k = cur_step["k"] if cur_step else None
                if not recorded:
                    if changed or reb["trades"] and changed:
                        # executed but not recorded
                        # own-costs ruin (open finding D7): the pre-trade snapshot exists, every trade was executed, the
                        # post-trade snapshot failed, and the independent ledger confirms NLV <= 0 right after the trades
                        shape = "other"
                        if reb["pre"] is not None and reb["post"] is None and reb["trades"]:
                            if reb["interest"] is not None:
                                ledger.interest += F(reb["interest"])
                            for tr in reb["trades"]:
                                ledger.apply(tr)
                            after = ledger.nlv(r["books"])
                            if after is not None and float(after) <= ledger.tol():
                                shape = "own_costs_ruin"
                        violate("one_entry_per_executed_decision", "step {}: trades {} were executed (holdings {} -> {}) but no track-record entry was written; step raised {}".format(
                            k, [(t["sym"], t["q"]) for t in reb["trades"]], r["hold_before"], r.get("hold_after"), cur_step.get("exc") if cur_step else None),
                            op=k, shape=shape)
                        tainted = True
                        break
                    # refused decision (account broke): nothing executed, nothing recorded - C09's business
                    refused.add(k)
                    continue
                # recorded entry
                if reb["time"] != last_market_t:
                    violate("entry_stamp", "step {}: entry stamped {} but the latest event processed before the execution is stamped {}".format(
                        k, reb["time"], last_market_t), op=k, kind="stamp")
                    break
                if stamps and not (reb["time"] > stamps[-1]):
                    violate("entry_order", "entry stamps not strictly increasing: {} after {}".format(reb["time"], stamps[-1]), op=k, kind="order")
                    break
                stamps.append(reb["time"])
                books = r["books"]
                # -- independent replay ------------------------------------------------
                if reb["interest"] is not None:
                    ledger.interest += F(reb["interest"])
                    if reb["interest"] != 0:
                        probe("interest_credited")
                m_pre = ledger.nlv(books)
                tol = ledger.tol()
                if m_pre is None or abs(reb["pre"]["nlv"] - float(m_pre)) > tol:
                    violate("replay_pre_nlv", "step {}: recorded pre-trade NLV {} but replaying recorded trades and interest against the quotes gives {}".format(
                        k, reb["pre"]["nlv"], float(m_pre) if m_pre is not None else None), op=k, kind="pre")
                    break
                # a snapshot is one consistent picture of the account: cash + posted margins + fully-paid positions at
                # their liquidation side add up to the NLV it reports
                for which in ("pre",):
                    snap = reb[which]
                    tot = F(snap["nr"].get("USD", 0.0))
                    okk = True
                    for sym, (mult, cashreq, mreq) in ledger.params.items():
                        tot += F(snap["margins"].get(sym, 0.0))
                        q = F(snap["nr"].get(sym, 0.0))
                        if cashreq != 0 and q != 0:
                            b_, a_ = books.get(sym, (None, None))
                            px_ = b_ if q > 0 else a_
                            if px_ is None or px_ != px_:
                                okk = False
                                break
                            tot += cashreq * q * mult * F(px_)
                    if okk and abs(float(tot) - snap["nlv"]) > tol:
                        violate("snapshot_inconsistent", "step {}: the {}-trade snapshot reports cash {} + margins + fully-paid positions = {} but NLV {}".format(
                            k, which, snap["nr"].get("USD", 0.0), float(tot), snap["nlv"]), op=k, kind=which)
                        break
                    if okk and any(v != 0 for v in snap["margins"].values()):
                        probe("snapshot_with_margins_consistent")
                if violations:
                    break
                for tr in reb["trades"]:
                    bid, ask = books.get(tr["sym"], (None, None))
                    if (tr["bid"], tr["ask"]) != (bid, ask) or tr["px"] != (ask if tr["q"] > 0 else bid):
                        violate("trade_prices", "step {}: trade of {} recorded at {}:{} exec {} but the book at execution is {}:{}".format(
                            k, tr["sym"], tr["bid"], tr["ask"], tr["px"], bid, ask), op=k, kind="prices")
                        break
                    want_c = float(ledger.commission(tr))
                    if abs(tr["comm"] - want_c) > 1e-9 * max(1.0, want_c):
                        violate("commissions", "step {}: recorded commission {} expected fixed + proportional*|notional| = {}".format(k, tr["comm"], want_c), op=k, kind="commission")
                        break
                    want_s = float(abs(F(tr["q"])) * ledger.params[tr["sym"]][0] * (F(tr["ask"]) - F(tr["bid"])))
                    if abs(tr["spread"] - want_s) > 1e-9 * max(1.0, abs(want_s)):
                        violate("commissions", "step {}: recorded cost of spread {} expected |q| x mult x (ask - bid) = {}".format(k, tr["spread"], want_s), op=k, kind="spread")
                        break
                    if tr["time"] != reb["time"]:
                        violate("entry_stamp", "step {}: trade stamped {} inside an entry stamped {}".format(k, tr["time"], reb["time"]), op=k, kind="trade_stamp")
                        break
                    ledger.apply(tr)
                    n_trades_total += 1
                    if tr["comm"] > 0:
                        probe("fees_positive")
                if violations:
                    break
                tol = ledger.tol()
                m_post = ledger.nlv(books)
                if m_post is None or abs(reb["post"]["nlv"] - float(m_post)) > tol:
                    violate("replay_post_nlv", "step {}: recorded post-trade NLV {} but the independent ledger gives {}".format(
                        k, reb["post"]["nlv"], float(m_post) if m_post is not None else None), op=k, kind="post")
                    break
                # holdings / weights / margins as recorded after the trades
                for sym, (mult, cashreq, mreq) in ledger.params.items():
                    q = ledger.pos.get(sym, F(0))
                    got_q = reb["post"]["nr"].get(sym, 0.0)
                    if abs(got_q - float(q)) > 1e-9 * max(1.0, abs(float(q))):
                        violate("replay_holdings", "step {}: recorded position of {} is {} but the recorded trades sum to {}".format(k, sym, got_q, float(q)), op=k, kind="holdings")
                        break
                    if q == 0:
                        want_w = want_m = 0.0
                    else:
                        bid, ask = books[sym]
                        liq = F(bid if q > 0 else ask)
                        want_w = float(mult * q * liq) / reb["post"]["nlv"]
                        want_m = float(mreq * mult * abs(q) * liq)
                    if abs(reb["post"]["w"].get(sym, 0.0) - want_w) > 1e-9 * max(1.0, abs(want_w)):
                        violate("replay_weights", "step {}: recorded weight of {} is {} expected {}".format(k, sym, reb["post"]["w"].get(sym, 0.0), want_w), op=k, kind="weights")
                        break
                    if abs(reb["post"]["margins"].get(sym, 0.0) - want_m) > tol:
                        violate("replay_margins", "step {}: recorded margin of {} is {} expected {}".format(k, sym, reb["post"]["margins"].get(sym, 0.0), want_m), op=k, kind="margins")
                        break
                if violations:
                    break
                entries.append((k, reb))
                if not reb["trades"]:
                    probe("step_without_trade")
                pattern.append(str(min(len(reb["trades"]), 3)))
        if violations or tainted:
            break
        # every step: outcome and reward
        for st in ep["steps"]:
            if st["done_before"]:
                continue
            k = st["k"]
            broke_now = (not isinstance(st["nlv"], str)) and st["nlv"] <= 0
            if k in refused or (st.get("exc") == "EndOfEpisodeError" and broke_now):
                # the account is insolvent (cumulated fees / prices): whether the episode ends properly is C09's
                # business; nothing was executed without being recorded, so C07 has nothing more to say here
                probe("insolvent_out_of_domain")
                break
            if st.get("exc") is not None:
                violate("unexpected_exception", "step {} raised {}: {} [{}]".format(k, st["exc"], st.get("msg"), st.get("site")), op=k,
                        exc=st["exc"], where="step", site=st.get("site"))
                break
            mine = [reb for (kk, reb) in entries if kk == k]
            if len(mine) != 1:
                violate("one_entry_per_executed_decision", "step {} produced {} track-record entries".format(k, len(mine)), op=k, shape="count")
                break
            reb = mine[0]
            nlv_now = st["nlv"]
            if isinstance(nlv_now, str) or nlv_now <= 0:
                continue
            want = epicheck.reward_model(env_spec.get("reward"), nlv_now, reb["pre"]["nlv"])
            if abs(st["reward"] - want) > 1e-9 * max(1.0, abs(want)):
                violate("reward", "step {}: reward {} but {} of (NLV after the step {} , NLV before the step's trades {}) is {}".format(
                    k, st["reward"], (env_spec.get("reward") or {}).get("cls"), nlv_now, reb["pre"]["nlv"], want), op=k,
                    kind=(env_spec.get("reward") or {"cls": "RewardSimpleReturn"})["cls"])
                break
            rewards.append(st["reward"])
            rs = env_spec.get("reward") or {}
            if rs.get("cls") == "RewardLogReturn" and abs(want) > 2.0:
                probe("plain_log_return_beyond_2")
            if rs.get("cls") == "LogReturn":
                raw = math.log(nlv_now / reb["pre"]["nlv"]) / rs.get("scale", 1.0)
                if abs(raw) > rs.get("clip", 2.0):
                    probe("reward_clipped")
                if raw < 0 and rs.get("risk_aversion", 0):
                    probe("reward_negative_with_risk_aversion")
        if violations:
            break
        n_entries_total += len(entries)
        # compounding corollary
        rs = env_spec.get("reward") or {"cls": "RewardSimpleReturn"}
        no_interest = all(reb["interest"] in (0.0, None) for _, reb in entries)
        complete = ep["steps"] and all(st.get("exc") is None for st in ep["steps"])
        if rs["cls"] == "RewardSimpleReturn" and d.lat_us == 0 and no_interest and complete and rewards and not isinstance(initial_nlv, str):
            prod = 1.0
            for x in rewards:
                prod *= 1 + x
            final = [st for st in ep["steps"] if not st["done_before"]][-1]["nlv"]
            if abs(prod - final / initial_nlv) > 1e-9 * max(1.0, abs(prod)):
                violate("compounding", "simple returns compound to {} but NLV_final/NLV_initial = {}".format(prod, final / initial_nlv), kind="compounding")
                break
            probe("compounding_checked")
        # an entry, once written, stays what it was: re-read at the end of the episode, every entry equals the
        # snapshot taken when it was written (an entry that aliases live account state would drift)
        if ep is h.episodes[-1] and entries and not scenario.get("driver_mixed"):
            final = sim.track_record()
            if len(final) == len(entries):
                for (k_, reb0), now_ in zip(entries, final):
                    if canon(reb0) != canon(now_):
                        keys = [x for x in reb0 if canon(reb0[x]) != canon(now_.get(x))]
                        violate("entry_changed_after_the_fact", "the entry written at step {} reads differently at the end of the episode: fields {}".format(k_, keys),
                                op=k_, kind=keys[0] if keys else "?")
                        break
                probe("entries_reread_at_the_end")
        if violations:
            break
        # TrackRecord's own aggregations against column-wise recomputation (last episode only: the broker is rebuilt on reset)
        if ep is h.episodes[-1] and entries:
            tr = h.env.broker.track_record
            try:
                nlv_df = tr.net_liquidation_value()
                costs = tr.transaction_costs()
            except Exception as e:
                violate("unexpected_exception", "TrackRecord aggregation raised {!r}".format(e), exc=core.exc_name(e), where="track_record")
                break
            col = [float(x) for x in nlv_df.iloc[:, 0].tolist()]
            want_col = [reb["pre"]["nlv"] for _, reb in entries]
            if len(col) != len(want_col) or any(abs(a - b) > 1e-9 * max(1.0, abs(b)) for a, b in zip(col, want_col)):
                violate("aggregations", "TrackRecord.net_liquidation_value() {} != recorded pre-trade NLVs {}".format(col[:5], want_col[:5]), kind="nlv_series")
                break
            try:
                wt = tr.weights_target()
            except Exception as e:
                violate("unexpected_exception", "TrackRecord.weights_target() raised {!r}".format(e), exc=core.exc_name(e), where="track_record")
                break
            if len(wt) != len(entries):
                violate("aggregations", "TrackRecord.weights_target() has {} rows for {} entries".format(len(wt), len(entries)), kind="weights_target_rows")
                break
            for j, (_, reb) in enumerate(entries):
                row = {getattr(c, "symbol", str(c)): float(v) for c, v in wt.iloc[j].items() if v == v and v != 0}
                want_row = {s_: v for s_, v in reb["alloc"].items()}
                if set(row) != set(want_row) or any(abs(row[s_] - want_row[s_]) > 1e-6 * max(1.0, abs(want_row[s_])) for s_ in row):
                    violate("aggregations", "TrackRecord.weights_target() row {} = {} but the entry's allocation is {}".format(j, row, want_row), kind="weights_target")
                    break
            if violations:
                break
            cum_fee = cum_int = cum_spread = 0.0
            for j, (_, reb) in enumerate(entries):
                cum_fee += sum(t["comm"] for t in reb["trades"])
                cum_spread += sum(t["spread"] for t in reb["trades"])
                cum_int += reb["interest"] or 0.0
                row = costs.iloc[j]
                if abs(row["Broker fees"] - cum_fee) > 1e-9 * max(1.0, abs(cum_fee)) or abs(row["Profit on idle Cash"] - cum_int) > 1e-9 * max(1.0, abs(cum_int)) \
                        or abs(row["Spread"] - cum_spread) > 1e-9 * max(1.0, abs(cum_spread)):
                    violate("aggregations", "TrackRecord.transaction_costs() row {} = {} expected fees {} interest {} spread {}".format(
                        j, row.to_dict(), cum_fee, cum_int, cum_spread), kind="costs")
                    break
            if violations:
                break
    if env_spec.get("delay", 0) > 0:
        probe("delay_positive")
    rs = env_spec.get("reward") or {"cls": "RewardSimpleReturn"}
    kinds = "".join(sorted(s["kind"][0] for s in env_spec["contracts"]))
    fees = env_spec["fees"]
    trace = "{}|d{}|l{}|{}|f{}{}|r{}|{}".format(rs["cls"], env_spec.get("delay", 0), 0 if d.lat_us == 0 else 1, kinds,
                                               int(bool(fees.get("fixed"))), int(bool(fees.get("prop"))),
                                               int(any(e["type"] == "rate" for e in env_spec["events"])), "".join(pattern))
    sim.stats["sim_seconds"] = int((d.G[-1] - d.G[0]).total_seconds())
    sim.stats["entries"] = n_entries_total
    sim.stats["trades"] = n_trades_total
    return {"violations": violations, "digest": core.digest(sim.log_for_digest()), "probes": probes, "faults": sim.faults,
            "stats": sim.stats, "trace": trace, "nontrivial": n_entries_total >= 2 and n_trades_total >= 1 and len(probes) >= 1}


def describe(scenario):
    if scenario.get("kind") == "xy":
        return {"kind": "xy", "kwargs": scenario["kwargs"], "rows": len(scenario["tables"]["dates"]), "actions": scenario["actions"]}
    return gen_epi.describe(scenario)


def shrink_paths(scenario):
    if scenario.get("kind") == "xy":
        return [("actions",)]
    return [("script",), ("envs", 0, "events")]


from tesim.props.c04 import simplify as _simplify_epi  # noqa: E402


def simplify(scenario):
    if scenario.get("kind") == "xy":
        return
    for c in _simplify_epi(scenario):
        yield c


generate = gen_epi.with_backtest_driver(generate, 0.2)
_generate_bt = generate


def generate(rng, i):
    sc = _generate_bt(rng, i)
    if i % 3 == 1 and sc.get("kind") == "epi" and sc.get("driver") != "backtest":
        # a monitoring caller reads the track record's public accessors while the episode runs (after the second step
        # and half-way): what it was shown then must not be what it is shown later.  No draw of the stream is consumed
        steps = [j for j, op in enumerate(sc["script"]) if op["op"] == "step"]
        for pos in sorted({steps[min(2, len(steps) - 1)], steps[len(steps) // 2]} if steps else [], reverse=True):
            sc["script"].insert(pos, {"op": "peek", "env": 0})
    return sc
