"""C06 - interest on cash: compounding, sign, markup and no double accrual.

Executor: one primary account driven through a script of accrue / query /
same-instant / backwards-time / empty-rebalance operations on a simulated
clock, plus twin accounts that differ in exactly one respect (no queries and
no rejected calls; one single accrual; no futures position).  The reference
amount is computed in 50-digit decimal arithmetic."""
from decimal import Decimal as D, getcontext
from datetime import timedelta, timezone

from tesim import core, world
from tesim.core import canon
from tradingenv.broker.broker import Broker, EndOfEpisodeError
from tradingenv.broker.trade import Trade
from tradingenv.broker.rebalancing import Rebalancing
from tradingenv.broker.fees import BrokerFees
from tradingenv.exchange import Exchange
from tradingenv.events import EventNBBO
from tradingenv.contracts import Cash, Rate

PROP = "C06"
PLAN = {"quick": 16000, "thorough": 800000}
TIMEOUT = 20
CHUNK = 400
SEC_YEAR = 365 * 24 * 60 * 60
RULE = ("seeded scripts of {accrue after dt, query after dt, accrue again at the same instant, call with a time earlier than "
        "the last accrual (fault), empty-target rebalance as accrual point, rate change} on accounts with cash of either sign "
        "(set directly, via leveraged spot purchases, or alongside a margined position), rates in (-0.05,0.25), markups >= 0, "
        "intervals from 1 s to 40 years; every credited amount is compared with a 50-digit decimal model, and twin accounts "
        "(single accrual / no queries and no rejected calls / no futures position) are compared with the primary. "
        "One run in six is an environment-level episode (spot contracts, rate events, markup, idle and borrowed cash): the interest "
        "each rebalance reports over constant-rate stretches equals the model, and the rate book is 0 until the first rate event. "
        "Non-trivial: >=2 accruals over a positive interval and >=1 probe; distinct = distinct (op-kind sequence, cash sign, "
        "rate-vs-markup regime, interval magnitude classes)")
ASSUMPTIONS = [
    "the accrual clock starts at the first call of accrued_interest on an account (pinned by the suite); queries are issued after that",
    "tolerance of a credited amount: 1e-12 x |balance| + 1e-11 x |amount| (double-precision x**y - 1 is accurate relative to the balance, not to a tiny amount)",
    "split invariance is judged on constant-rate runs only, 1e-10 relative on the final balance",
    "1 + rate - markup > 0; rate < 0.25 (Rate quotes above are rejected by the library)",
]
COMPONENTS = {"real": ["Broker.accrued_interest", "Broker.rebalance", "Broker.transact", "Exchange", "BrokerFees", "Rebalancing"],
              "harness": ["50-digit decimal interest model", "twin accounts"], "stub": []}
PROBE_FLOORS = {"negative_cash": 200, "floor_positive_cash_negative_net_rate": 50, "sub_day_interval": 200,
                "multi_decade_interval": 50, "five_or_more_cuts": 100, "query_between_cuts": 200,
                "backwards_time_rejected": 200, "margined_position_alongside": 100, "empty_rebalance_accrual": 100,
                "env_level_interest_checked": 300, "tabular_interest_checked": 3000, "tabular_rate_back_at_an_earlier_level": 1000, "rate_book_zero_before_first_rate_event": 100,
                "timezone_aware_mixed_offsets": 2000, "accrual_clock_started_by_rebalance": 200,
                "rate_event_replayed_at_reset": 50, "rate_book_checked_at_execution": 2000,
                "futures_price_moved_between_accruals": 500, "negative_rate_quoted_with_a_spread": 40}
getcontext().prec = 50


def model_amount(balance, rate, markup, secs):
    b = D(balance)
    if balance > 0:
        r = D(rate) - D(markup)
    elif balance < 0:
        r = D(rate) + D(markup)
    else:
        return D(0)
    v = b * ((D(1) + r) ** (D(secs) / D(SEC_YEAR)) - D(1))
    if balance > 0 and v < 0:
        v = D(0)
    return v


EPI_PROFILE = {
    "n_min": 3, "n_max": 10, "c_min": 1, "c_max": 2, "p_bar": 1.0, "extras_max": 3, "extra_kinds": ["nbbo", "custom"],
    "p_sparse_grid": 0.0, "p_folds": 0.0, "p_markov": 0.0, "p_warmup": 0.0, "delays": [0, 0, 1],
    "contract_kinds": ["ETF", "spot"], "p_with_cash": 0.0, "p_rate": 0.0, "spaces": ["box"], "box_bounds": [(-1.0, 2.0)],
    "latencies": [0], "grid_styles": ["daily", "regular", "irregular"], "fixed_fees": [0, 0.01],
}


def generate_epi(rng, i):
    """Environment-level clause: interest reported per rebalance over constant-rate
    stretches of an episode, and a rate book that is 0 until the first rate event."""
    from tesim import gen_epi
    env = gen_epi.gen_env(rng, EPI_PROFILE)
    env["fees"]["markup"] = rng.choice([0.0, 0.005, 0.02])
    grid = env["grid"]
    first = rng.randint(0, len(grid) - 1)
    r = rng.choice([0.01, 0.05, -0.01, 0.2])
    for k, g in enumerate(grid):
        if k < first:
            continue
        if k == first or rng.random() < 0.25:
            if k != first and rng.random() < 0.6:
                r = rng.choice([0.0, 0.02, 0.1, -0.02])
            env["events"].append({"t": g, "type": "rate", "r": r, "id": 5000 + k})
    if rng.random() < 0.3:
        # quotes and the reference rate are handed over as a table of mid prices (Transmitter.add_prices) with a
        # spread: a negative rate is then quoted "crossed" (bid above ask) around the same mid
        sp = rng.choice([0.0, 0.002, 0.01])
        for es in env["events"]:
            if es["type"] == "nbbo" and es["bid"] == es["bid"]:
                mid = (es["bid"] + es["ask"]) / 2
                es["bid"], es["ask"] = mid, mid         # (re-derived below from the mid and the table's spread)
        gen_epi.route_quotes_via_add_prices(rng, env, sp)
    script = gen_epi.full_episode_script(rng, env)
    for op in script:
        if op["op"] == "step" and rng.random() < 0.3:
            op["action"] = [rng.choice([0.0, 1.5, 2.0])] + [0.0] * (len(op["action"]) - 1)     # idle or borrowed cash
    return {"kind": "epi", "envs": [env], "clock0": "1999-01-01T00:00:00", "script": script, "prng": rng.randrange(2 ** 31)}


def rate_quote(e):
    """(bid, ask, mid) of a reference-rate event as it reaches the exchange."""
    if e.get("via_prices"):
        return (e["bid"], e["ask"], (e["bid"] + e["ask"]) / 2)
    return (e["r"], e["r"], (e["r"] + e["r"]) / 2)


def execute_epi(scenario):
    from tesim import epi, epicheck
    sim = epi.run_scenario(scenario)
    env_spec = scenario["envs"][0]
    violations, probes, violate, probe = epicheck.mk_violation_sink()
    h = sim.handles[0]
    markup = env_spec["fees"].get("markup", 0.0)
    rate_events = sorted(core.parse_t(e["t"]) for e in env_spec["events"] if e["type"] == "rate")
    n_judged = 0
    for ep in h.episodes:
        if ep["failed"]:
            break
        rb = ep["reset"]["books"]["__rate__"]
        had_rate = any(t <= ep["reset"]["now"] for t in rate_events)
        rate_of0 = {e["id"]: rate_quote(e) for e in env_spec["events"] if e["type"] == "rate"}
        replayed = [rate_of0[r["id"]] for r in sim.sink.records if r.get("env") == 0 and r["kind"] == "cb" and r.get("obs") == "state"
                    and ep["reset"]["seq"] < r["seq"] < ep["reset"]["end_seq"] and r.get("id") in rate_of0]
        if replayed:
            probe("rate_event_replayed_at_reset")
            if (rb[0], rb[1]) != replayed[-1][:2]:
                violate("rate_book", "after reset the reference rate on the exchange is {} but the last rate event replayed says {}".format(rb, replayed[-1][:2]), kind="reset")
        if not had_rate:
            probe("rate_book_zero_before_first_rate_event")
            if rb[0] != 0.0 or rb[1] != 0.0:
                violate("rate_book_initial", "the rate book is {} although no rate event has been delivered".format(rb), kind="initial")
        prev = None
        rates_seen = []
        # the reference rate on the exchange is the last rate event delivered so far in this episode (0 before any)
        rate_of = {e["id"]: rate_quote(e) for e in env_spec["events"] if e["type"] == "rate"}
        expected_rate = (0.0, 0.0, 0.0)
        for r in sim.sink.records:
            if r.get("env") != 0 or not (ep["reset"]["seq"] < r["seq"]):
                continue
            if r["kind"] == "reset":
                break       # next episode
            if r["kind"] == "cb" and r.get("obs") == "state" and r.get("id") in rate_of:
                expected_rate = rate_of[r["id"]]
            if r["kind"] == "EXEC":
                got_rate = tuple(r["books"]["__rate__"][:2])
                if got_rate != expected_rate[:2]:
                    violate("rate_book", "at the execution of {} the reference rate on the exchange is {} but the last rate event delivered says {}".format(
                        r["time"], got_rate, expected_rate[:2]), kind="exec")
                    break
                if expected_rate[0] > expected_rate[1]:
                    probe("negative_rate_quoted_with_a_spread")
                probe("rate_book_checked_at_execution")
            if r["kind"] == "step" and "books" in r:
                rates_seen.append((r["books"]["__rate__"][0] + r["books"]["__rate__"][1]) / 2)
            if r["kind"] != "EXEC" or r.get("rebalancing", {}).get("post") is None:
                continue
            reb = r["rebalancing"]
            rate_now = expected_rate[2]         # the mid of the last rate quote delivered (what the broker's formula reads)
            if prev is not None:
                cash = prev["post"]["nr"].get("USD", 0.0)
                secs = (reb["time"] - prev["time"]).total_seconds()
                constant = all(x == rate_now for x in rates_seen) and prev_rate == rate_now
                if constant:
                    m = model_amount(cash, rate_now, markup, secs)
                    tol = D("1e-12") * abs(D(cash)) + D("1e-11") * abs(m) + D("1e-300")
                    if abs(D(reb["interest"]) - m) > tol:
                        violate("amount", "rebalance at {}: reported interest {} on cash {} over {} s at rate {} markup {}: expected {}".format(
                            reb["time"], reb["interest"], cash, secs, rate_now, markup, float(m)), regime="env")
                        break
                    n_judged += 1
                    if cash < 0:
                        probe("negative_cash")
                    probe("env_level_interest_checked")
                    got_cash = reb["pre"]["nr"].get("USD", 0.0)
                    if abs(got_cash - (cash + reb["interest"])) > 1e-9 * max(1.0, abs(cash)):
                        violate("not_credited", "cash before the trades {} != previous cash {} + reported interest {}".format(got_cash, cash, reb["interest"]), kind="env_credit")
                        break
            else:
                if reb["interest"] != 0:
                    violate("amount", "the first rebalance of an episode reports interest {} (its accrual period has zero length)".format(reb["interest"]), regime="first")
                    break
            prev = reb
            prev_rate = rate_now
            rates_seen = []
    trace = "epi|n{}|m{}|r{}|j{}".format(len(env_spec["grid"]), markup, len(rate_events), n_judged)
    sim.stats["accruals"] = n_judged
    return {"violations": violations, "digest": core.digest(sim.log_for_digest()), "probes": probes, "faults": sim.faults,
            "stats": sim.stats, "trace": trace, "nontrivial": n_judged >= 2 and len(probes) >= 1}


def generate_xy(rng, i):
    """Tabular arm: an all-cash account in a TradingEnvXY whose reference-rate series is a step function that
    comes back to levels it held before (2% -> 5% -> 2%); the interest of every constant stretch is judged."""
    from tesim import xy
    tb = xy.gen_tables(rng, {"n_min": 40, "n_max": 70, "freqs": ["D"]})
    n = len(tb["dates"])
    tb["x_rows"] = list(range(n))
    tb["X"] = [[0.1 * ((r + j) % 7) for j in range(len(tb["xcols"]))] for r in range(n)]
    for r, row in enumerate(tb["Y"]):
        for j, v in enumerate(row):
            if v != v:
                row[j] = tb["Y"][r - 1][j] if r > 0 else 100.0
    levels = rng.sample([0.02, 0.05, 0.0, -0.01, 0.1, 0.0125], 3)
    rate, k, turn = [], 0, 0
    while k < n:
        run = rng.randint(2, 9)
        lv = levels[turn % 2] if turn % 5 != 4 else levels[2]      # A B A B C A B ...: every level is revisited
        rate += [lv] * min(run, n - k)
        k += run
        turn += 1
    tb["rate"] = rate
    kw = {"window": rng.choice([1, 2]), "stride": None, "spread": 0.0, "transformer": None, "clip": 5.0, "steps_delay": 0,
          "margin": 0.0, "calendar": "24/7", "latency": 0, "markup": rng.choice([0.0, 0.005, 0.02]), "fee": 0.0, "fixed": 0.0,
          "cash": rng.choice([100.0, 1e6])}
    return {"kind": "xy06", "tables": tb, "kwargs": kw, "np_seed": rng.randrange(2 ** 31)}


def execute_xy(scenario):
    from tesim import xy
    import warnings
    import numpy as np
    import pandas as pd
    from tradingenv.contracts import Cash
    violations, probes, faults, log = [], {}, {}, []

    def probe(nm):
        probes[nm] = probes.get(nm, 0) + 1
    tb, kw = scenario["tables"], scenario["kwargs"]
    given = {pd.Timestamp(d): r for d, r in zip(tb["dates"], tb["rate"])}
    n_judged = 0
    with core.sim_context():
        env, X0, Y0, rate0 = xy.make_env(scenario)
        ny = len(tb["ycols"])
        np.random.seed(scenario.get("np_seed", 0) % (2 ** 32))
        with warnings.catch_warnings():
            warnings.simplefilter("ignore")
            env.reset()
            prev = None
            done = False
            while not done and len(log) < 200:
                obs, reward, done, info = env.step(np.zeros(ny))
                e = env.broker.track_record[-1]
                t = pd.Timestamp(e.time)
                cash = float(env.broker.holdings_quantity[Cash()])
                interest = float(e.profit_on_idle_cash)
                log.append([str(t), cash, interest])
                if prev is not None and t in given and prev[0] in given and given[t] == given[prev[0]]:
                    r = given[t]
                    secs = (t - prev[0]).total_seconds()
                    m = model_amount(prev[1], r, kw["markup"], secs)
                    tol = D("1e-12") * abs(D(prev[1])) + D("1e-11") * abs(m) + D("1e-300")
                    if abs(D(interest) - m) > tol or abs(D(cash) - (D(prev[1]) + D(interest))) > D("1e-9") * max(D(1), abs(D(cash))):
                        violations.append({"clause": "amount", "sig": {"regime": "tabular"}, "op": len(log) - 1,
                                           "msg": "tabular environment, all-cash account: over {} -> {} the given rate is constant at {} (markup {}) but the interest credited on {} is {} (cash now {}), expected {}".format(
                                               prev[0], t, r, kw["markup"], prev[1], interest, cash, float(m))})
                        break
                    n_judged += 1
                    probe("tabular_interest_checked")
                    if any(lv == r for (lv, closed) in list(seen_levels(tb["rate"], tb["dates"], t))):
                        probe("tabular_rate_back_at_an_earlier_level")
                prev = (t, cash, given.get(t))
    return {"violations": violations, "digest": core.digest(log), "probes": probes, "faults": faults,
            "stats": {"ops": len(log), "steps": len(log), "accruals": n_judged, "sim_seconds": 86400 * len(log)},
            "trace": "xy06|m{}|w{}|j{}".format(kw["markup"], kw["window"], n_judged), "nontrivial": n_judged >= 2}


def seen_levels(rate, dates, t):
    """Levels the rate held in an earlier, closed stretch before the stretch that contains t."""
    import pandas as pd
    out, cur = [], None
    stretches = []
    for d, r in zip(dates, rate):
        if pd.Timestamp(d) > t:
            break
        if r != cur:
            stretches.append(r)
            cur = r
    return [(lv, True) for lv in stretches[:-1] if stretches and lv == stretches[-1]]


def generate(rng, i):
    if i % 6 == 5:
        return generate_epi(rng, i)
    if i % 24 == 7:
        return generate_xy(rng, i)
    rate = rng.choice([0.0, 0.01, 0.05, 0.2, -0.02, 0.2499, round(rng.uniform(-0.05, 0.249), 5), -0.3, -0.6, -0.25])
    markup = rng.choice([0.0, 0.0, 0.005, 0.03, round(rng.uniform(0, 0.06), 4)])
    if 1 + rate - markup <= 0.01:
        markup = 0.0
    setup = rng.choice(["deposit", "deposit", "deposit", "leveraged_spot", "with_future", "with_future"])
    if setup == "deposit":
        cash = rng.choice([100.0, 1e6, -100.0, -5e4, 0.0, round(rng.uniform(-1e5, 1e5), 2)])
    else:
        cash = rng.choice([1000.0, 1e5, 1e6])
    n = rng.randint(1, 12)
    script = []
    dts = [1, 60, 3600, 86400, 30 * 86400, SEC_YEAR, 10 * SEC_YEAR, 40 * SEC_YEAR]
    ratepath = rng.random() < 0.15
    for _ in range(n):
        r = rng.random()
        dt = rng.choice(dts) if rng.random() < 0.6 else rng.randint(1, 10 ** 8)
        if r < 0.45:
            script.append({"op": "accrue", "dt": dt})
        elif r < 0.65:
            script.append({"op": "query", "dt": dt if rng.random() < 0.7 else 0})
        elif r < 0.75:
            script.append({"op": "again"})
        elif r < 0.85:
            script.append({"op": "back", "dt": rng.choice([1, 3600, 10 ** 7])})
        elif r < 0.95:
            script.append({"op": "rebal_empty", "dt": dt})
        elif ratepath:
            script.append({"op": "rate", "r": rng.choice([0.0, 0.02, 0.1, -0.01, -0.3])})
        else:
            script.append({"op": "accrue", "dt": dt})
    script.append({"op": "accrue", "dt": rng.choice(dts)})
    if setup == "with_future" and rng.random() < 0.5:
        # the futures price moves between accrual points, with nobody valuing the account in between: unsettled
        # variation margin is not idle cash, so the interest of the period must not depend on it
        out = []
        for op in script:
            if op["op"] in ("accrue", "rebal_empty") and rng.random() < 0.6:
                out.append({"op": "fquote", "f": rng.choice([0.98, 0.99, 1.01, 1.02])})
            out.append(op)
        script = out
    zones = None
    if rng.random() < 0.25:
        # the same instants written as timezone-aware timestamps, each call in a zone of its own
        # (UTC offsets in minutes): elapsed seconds are a matter of instants, not of wall clocks
        zones = rng.choice([[0], [0, 120], [-300, -240], [0, 60, 120, -300, 330, 765]])
        for op in script:
            op["z"] = rng.randrange(len(zones))
    only_rebalances = False
    if rng.random() < (0.4 if zones else 0.1) and cash > 0:
        # every accrual point, including the one that starts the accrual clock, is a rebalance that trades nothing
        only_rebalances = True
        script = [dict(op, op="rebal_empty") if op["op"] == "accrue" else op for op in script if op["op"] in ("accrue", "rebal_empty", "rate", "fquote")]
    if i % 12 == 3:
        # an unusual but legal configuration: a markup of 100% and more (idle cash earns nothing, loans cost
        # rate + markup) - as long as 1 + rate - markup stays positive at every rate of the script
        lowest = min([rate] + [op["r"] for op in script if op["op"] == "rate"])
        for big in ([1.1, 1.0] if i % 24 == 3 else [1.0]):
            if 1 + lowest - big > 0.01:
                markup = big
                break
    return {"kind": "c06", "zones": zones, "only_rebalances": only_rebalances, "cash": cash, "rate": rate, "markup": markup, "setup": setup,
            "late_rate_feed": i % 4 == 2,
            "lev": rng.choice([1.5, 2.0, 3.0]), "fut_side": rng.choice([1, -1]), "t0": "2000-01-01T00:00:00", "script": script}


class Account(object):
    def __init__(self, sc, cash, with_position):
        self.t_utc = core.parse_t(sc["t0"])
        self.late_feed = bool(sc.get("late_rate_feed"))
        self.zones = sc.get("zones")
        self.z = 0
        self.ex = Exchange()
        self.ex.process_EventNBBO(EventNBBO(self.t, Cash(), 1.0, 1.0))
        self.ex.process_EventNBBO(EventNBBO(self.t, Rate(world.RATE_NAME), sc["rate"], sc["rate"]))
        self.fees = BrokerFees(markup=sc["markup"], interest_rate=Rate(world.RATE_NAME))
        self.b = Broker(self.ex, deposit=cash, fees=self.fees)
        self.rate = sc["rate"]
        if with_position == "leveraged_spot":
            c = world.build_contract({"name": "S", "kind": "spot", "mult": 2.0})
            self.ex.process_EventNBBO(EventNBBO(self.t, c, 10.0, 10.0))
            q = sc["lev"] * cash / (10.0 * 2.0)
            self.b.transact(Trade(self.t, c, q, 10.0, 10.0, self.fees))
        elif with_position == "with_future":
            c = world.build_contract({"name": "M", "kind": "margined", "mult": 50.0, "mreq": 0.1})
            self.fut, self.fut_px = c, 100.0
            self.ex.process_EventNBBO(EventNBBO(self.t, c, 100.0, 100.0))
            q = sc["fut_side"] * 0.5 * cash / (100.0 * 50.0 * 0.1)
            self.b.transact(Trade(self.t, c, q, 100.0, 100.0, self.fees))
        self.by_rebalance = bool(sc.get("only_rebalances"))
        if self.by_rebalance:
            self.empty_rebalance()              # the first rebalance starts the accrual clock
        else:
            self.b.accrued_interest(self.t, True)   # starts the accrual clock

    def empty_rebalance(self):
        """A rebalance that trades nothing (target == current holdings) at the current instant."""
        held = [(c, q) for c, q in self.b.holdings_quantity.items() if not isinstance(c, Cash) and q != 0]
        r = Rebalancing([c for c, _ in held], [q for _, q in held], measure="nr-contracts", time=self.t)
        self.b.rebalance(r)
        return r

    def render(self, t_utc):
        """The instant as handed to the library: naive, or timezone-aware in the current op's zone."""
        if not self.zones:
            return t_utc
        off = timedelta(minutes=self.zones[self.z % len(self.zones)])
        return (t_utc + off).replace(tzinfo=timezone(off))

    @property
    def t(self):
        return self.render(self.t_utc)

    def cash(self):
        return self.b.holdings_quantity[Cash()]

    def move_future(self, f):
        self.fut_px = self.fut_px * f
        self.ex.process_EventNBBO(EventNBBO(self.t, self.fut, self.fut_px, self.fut_px))

    def set_rate(self, r):
        if self.late_feed:
            # the fixing is stamped a second before the present (before the futures quote the exchange may just have seen)
            # and handed to the exchange through the event's own dispatch: a late, out-of-order publication
            EventNBBO(self.render(self.t_utc - timedelta(seconds=1)), Rate(world.RATE_NAME), r, r).notify([self.ex])
        else:
            self.ex.process_EventNBBO(EventNBBO(self.t, Rate(world.RATE_NAME), r, r))
        self.rate = r


def execute(scenario):
    sc = scenario
    if sc.get("kind") == "epi":
        return execute_epi(sc)
    if sc.get("kind") == "xy06":
        return execute_xy(sc)
    with core.sim_context():
        return _execute(sc)


def _execute(sc):
    violations, probes, faults, log, trace = [], {}, {}, [], []
    stats = {"ops": 0, "accruals": 0, "sim_seconds": 0}

    def probe(n):
        probes[n] = probes.get(n, 0) + 1

    def violate(k, clause, msg, **sig):
        if not violations:
            violations.append({"clause": clause, "sig": sig, "op": k, "msg": msg})

    setup = sc["setup"]
    P = Account(sc, sc["cash"], setup if setup != "deposit" else None)
    cash0 = P.cash()
    Q = Account(sc, sc["cash"], setup if setup != "deposit" else None)   # no queries, no rejected calls
    S = Account(sc, sc["cash"], setup if setup != "deposit" else None)   # a single accrual at the end
    Fz = Account(sc, cash0, None) if setup == "with_future" else None    # same cash, no futures position
    if Fz is not None:
        probe("margined_position_alongside")
        if Fz.cash() != cash0:
            raise core.HarnessError("twin cash differs")
    if cash0 < 0:
        probe("negative_cash")
    constant_rate = True
    settled = False
    unsettled = False
    rate_changed_since_accrual = False
    last_accrual_t = P.t_utc
    cuts = 0
    positions0 = {k: v for k, v in P.b.holdings_quantity.items() if not isinstance(k, Cash)}
    margins0 = dict(P.b.holdings_margins)

    def check_amount(k, bal, amt, secs, what):
        if rate_changed_since_accrual:
            return
        m = model_amount(bal, P.rate, sc["markup"], secs)
        tol = D("1e-12") * abs(D(bal)) + D("1e-11") * abs(m) + D("1e-300")
        if amt != amt or abs(D(float(amt)) - m) > tol:
            regime = "pos" if bal > 0 else ("neg" if bal < 0 else "zero")
            violate(k, "amount", "{}: credited {} on balance {} over {} s at rate {} markup {}: expected {}".format(
                what, amt, bal, secs, P.rate, sc["markup"], float(m)), regime=regime)
        if bal > 0 and m == 0 and (P.rate - sc["markup"]) < 0 and secs > 0:
            probe("floor_positive_cash_negative_net_rate")
        if bal > 0 and amt < 0:
            violate(k, "positive_balance_charged", "{}: positive balance {} was charged {}".format(what, bal, amt), regime="pos")

    cur = [0]
    try:
        for k, op in enumerate(sc["script"]):
            cur[0] = k
            name = op["op"]
            if name == "rebal_empty" and setup == "deposit" and P.cash() <= 0:
                name = "accrue"   # a broke account cannot rebalance (C09); accrue directly (a deposit-only account is
                                  # worth its cash; it is deliberately not valued here - a valuation settles margins)
            stats["ops"] += 1
            rec = [k, name]
            for a in (P, Q, S, Fz):
                if a is not None:
                    a.z = op.get("z", 0)
            if sc.get("zones") and len(sc["zones"]) > 1:
                probe("timezone_aware_mixed_offsets")
            if name in ("accrue", "rebal_empty"):
                dt = op["dt"]
                for a in (P, Q, Fz):
                    if a is not None:
                        a.t_utc = a.t_utc + timedelta(seconds=dt)
                S.t_utc = S.t_utc + timedelta(seconds=dt)
                bal = P.cash()
                secs = (P.t_utc - last_accrual_t).total_seconds()
                amts = []
                for a in (P, Q, Fz):
                    if a is None:
                        amts.append(None)
                        continue
                    if name == "accrue":
                        amts.append(a.b.accrued_interest(a.t, True))
                    else:
                        # a rebalance that trades nothing: target == current holdings
                        held = [(c, q) for c, q in a.b.holdings_quantity.items() if not isinstance(c, Cash) and q != 0]
                        r = Rebalancing([c for c, _ in held], [q for _, q in held], measure="nr-contracts", time=a.t)
                        n_rec = len(a.b.track_record)
                        try:
                            a.b.rebalance(r)
                        except EndOfEpisodeError:
                            # interest for the period is credited first; the valuation
                            # that follows found NLV <= 0 (C09) - the accrual stands
                            amts.append(r.profit_on_idle_cash)
                            if a is P:
                                probe("rebalance_broke_after_interest")
                            continue
                        amts.append(r.profit_on_idle_cash)
                        if a is P:
                            probe("empty_rebalance_accrual")
                            if len(r.trades) != 0 or len(a.b.track_record) != n_rec + 1:
                                violate(k, "empty_rebalance", "empty-target rebalance traded or did not checkpoint", kind="trades")
                amt = amts[0]
                stats["accruals"] += 1
                stats["sim_seconds"] += int(secs)
                check_amount(k, bal, amt, secs, name)
                new = P.cash()
                if name == "rebal_empty" and unsettled:
                    unsettled = False       # the rebalance valued the account: variation margin moved into / out of cash as well
                elif abs(new - (bal + amt)) > 1e-12 * max(1.0, abs(bal)):
                    violate(k, "not_credited", "balance {} + amount {} != new balance {}".format(bal, amt, new), kind="credit")
                if amts[1] != amt or Q.cash() != new:
                    violate(k, "query_changed_result", "account without queries/rejected calls got {} (cash {}) but the primary {} (cash {})".format(
                        amts[1], Q.cash(), amt, new), kind="twin_noquery")
                if Fz is not None and (amts[2] != amt):
                    violate(k, "margin_earned_interest", "same cash with an open futures position earned {} but without it {}".format(amt, amts[2]), kind="twin_nofuture")
                if 0 < secs < 86400:
                    probe("sub_day_interval")
                if secs >= 10 * SEC_YEAR:
                    probe("multi_decade_interval")
                if secs > 0:
                    cuts += 1
                last_accrual_t = P.t_utc
                rate_changed_since_accrual = False
                rec += [canon(amt), canon(new)]
                trace.append("A" + ("0" if secs == 0 else ("s" if secs < 86400 else ("y" if secs < SEC_YEAR * 2 else "Y"))))
            elif name == "query":
                dt = op["dt"]
                for a in (P, Q, S, Fz):
                    if a is not None:
                        a.t_utc = a.t_utc + timedelta(seconds=dt)
                bal = P.cash()
                secs = (P.t_utc - last_accrual_t).total_seconds()
                amt = P.b.accrued_interest(P.t, False)
                check_amount(k, bal, amt, secs, "query")
                if P.cash() != bal:
                    violate(k, "query_changed_balance", "a query changed the balance {} -> {}".format(bal, P.cash()), kind="query")
                probe("query_between_cuts")
                rec += [canon(amt)]
                trace.append("Q")
            elif name == "again":
                bal = P.cash()
                amt = P.b.accrued_interest(P.t, True)
                secs = (P.t_utc - last_accrual_t).total_seconds()
                if secs == 0:
                    if amt != 0 or P.cash() != bal:
                        violate(k, "same_instant", "accruing again at the same instant added {} (balance {} -> {})".format(amt, bal, P.cash()), kind="again")
                    probe("same_instant_accrual")
                else:
                    # a query moved the clock forward since the last accrual: a normal accrual
                    check_amount(k, bal, amt, secs, "accrue")
                    Q.b.accrued_interest(Q.t, True)
                    if Fz is not None:
                        Fz.b.accrued_interest(Fz.t, True)
                    last_accrual_t = P.t_utc
                    rate_changed_since_accrual = False
                    cuts += 1
                rec += [canon(amt)]
                trace.append("G")
            elif name == "back":
                faults["time_before_last_accrual"] = faults.get("time_before_last_accrual", 0) + 1
                bal = P.cash()
                t_bad = P.render(last_accrual_t - timedelta(seconds=op["dt"]))
                for accrue_flag in (True, False):
                    try:
                        r = P.b.accrued_interest(t_bad, accrue_flag)
                    except ValueError:
                        probe("backwards_time_rejected")
                    except Exception as e:
                        violate(k, "backwards_time", "time earlier than last accrual raised {!r} instead of ValueError".format(e), exc=core.exc_name(e))
                    else:
                        violate(k, "backwards_time", "time {} earlier than the last accrual {} was accepted (returned {})".format(t_bad, last_accrual_t, r), exc="none")
                if P.cash() != bal:
                    violate(k, "backwards_time", "a rejected call changed the balance", exc="changed")
                trace.append("B")
            elif name == "fquote":
                for a in (P, Q, S):
                    a.move_future(op["f"])
                Fz = None                   # the twin without the position has no variation margin to settle
                settled = True
                unsettled = True
                probe("futures_price_moved_between_accruals")
                trace.append("F")
            elif name == "rate":
                for a in (P, Q, S, Fz):
                    if a is not None:
                        a.set_rate(op["r"])
                constant_rate = False
                rate_changed_since_accrual = True
                trace.append("R")
            log.append(rec)
            if violations:
                break
        if not violations:
            # posted margin / positions untouched by interest
            pos_now = {k: v for k, v in P.b.holdings_quantity.items() if not isinstance(k, Cash)}
            margins_now = {k: v for k, v in P.b.holdings_margins.items() if v != 0}
            if {k: v for k, v in pos_now.items() if v != 0} != {k: v for k, v in positions0.items() if v != 0} or \
                    (margins_now != {k: v for k, v in margins0.items() if v != 0} and not settled):
                violate(len(sc["script"]), "margin_earned_interest", "positions or posted margins changed through accruals", kind="margins_changed")
            # split invariance: S accrues once over the whole span
            if constant_rate and not settled:
                S.t_utc = P.t_utc
                if S.by_rebalance and S.b.net_liquidation_value(raise_if_broke=False) > 0:
                    try:
                        S.empty_rebalance()
                    except EndOfEpisodeError:
                        pass        # credited first, then found broke (C09): the accrual stands
                    probe("accrual_clock_started_by_rebalance")
                else:
                    S.b.accrued_interest(S.t, True)
                if last_accrual_t != P.t_utc:
                    P.b.accrued_interest(P.t, True)      # the primary account accrues up to the same instant (queries moved its clock)
                a, b = P.cash(), S.cash()
                if cuts >= 2:
                    probe("split_compared")
                if cuts >= 5:
                    probe("five_or_more_cuts")
                # (a balance that decays from 5e4 to 0.3 at -60% a year is known to 1e-16 of the 5e4 it came from)
                if abs(a - b) > 1e-10 * max(1.0, abs(a)) + 1e-12 * abs(cash0):
                    violate(len(sc["script"]), "split_invariance", "{} accruals gave {} but a single accrual over the same span gave {}".format(cuts, a, b),
                            regime="pos" if cash0 > 0 else "neg")
            log.append(["end", canon(P.cash()), canon(S.cash())])
    except core.HarnessError:
        raise
    except Exception as e:
        # the library failed on a valid call (not the harness): that is a finding, not a harness error
        site = core.library_site(e)
        if site is None:
            raise
        violate(cur[0], "unexpected_exception", "op {} ({}) raised {!r} in {}".format(cur[0], sc["script"][cur[0]]["op"] if cur[0] < len(sc["script"]) else "end", e, site),
                exc=core.exc_name(e), site=site)
    regime = ("neg" if cash0 < 0 else ("zero" if cash0 == 0 else "pos")) + ("floor" if sc["rate"] - sc["markup"] < 0 else "") + sc["setup"][0]
    return {"violations": violations, "digest": core.digest(log), "probes": probes, "faults": faults, "stats": stats,
            "trace": regime + ":" + "".join(trace), "nontrivial": stats["accruals"] >= 2 and len(probes) >= 1}


def describe(scenario):
    if scenario.get("kind") == "epi":
        from tesim import gen_epi
        return gen_epi.describe(scenario)
    if scenario.get("kind") == "xy06":
        tb = scenario["tables"]
        return {"tabular": True, "rows": len(tb["dates"]), "first": tb["dates"][0], "last": tb["dates"][-1], "rate_head": tb["rate"][:30], "kwargs": scenario["kwargs"]}
    return {k: scenario[k] for k in ("cash", "rate", "markup", "setup", "script")}


def shrink_paths(scenario):
    return [] if scenario.get("kind") == "xy06" else [("script",)]


def simplify(scenario):
    import copy
    if scenario.get("kind") in ("epi", "xy06"):
        return
    if scenario["setup"] != "deposit":
        c = copy.deepcopy(scenario)
        c["setup"] = "deposit"
        yield c
    if scenario["markup"] != 0:
        c = copy.deepcopy(scenario)
        c["markup"] = 0.0
        yield c
    for k, op in enumerate(scenario["script"]):
        if op.get("dt") not in (None, 0, 1, 86400, SEC_YEAR):
            for v in (SEC_YEAR, 86400, 1):
                c = copy.deepcopy(scenario)
                c["script"][k]["dt"] = v
                yield c


def selfcheck():
    # hand-computed: 1% on 100 over exactly one year = 1; 3% - 1% markup on 1 over a year = 0.02
    assert abs(model_amount(100.0, 0.01, 0.0, SEC_YEAR) - D(1)) < D("1e-12")
    assert abs(model_amount(1.0, 0.03, 0.01, SEC_YEAR) - D("0.02")) < D("1e-12")
    assert abs(model_amount(-1.0, 0.03, 0.01, SEC_YEAR) + D("0.04")) < D("1e-12")
    assert model_amount(1.0, -0.05, 0.005, SEC_YEAR) == 0


def _wrap_driver():
    from tesim import gen_epi
    return gen_epi.with_backtest_driver(generate_epi, 0.2)


generate_epi = _wrap_driver()
