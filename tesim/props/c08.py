"""C08 - decision-to-execution timing: FIFO delay and latency pricing."""
import copy

from tesim import core, epi, gen_epi, epicheck
from tesim.epimodel import Delivery, us

PROP = "C08"
PLAN = {"quick": 5000, "thorough": 250000}
TIMEOUT = 30
CHUNK = 100
RULE = ("seeded bar-shaped worlds (a quote for every contract at every timestep) with extra quotes placed at and around "
        "t+latency (exactly on it, 1us either side), delays 0-4, latencies 0..min gap-1us, continuous and discrete action "
        "spaces, episode lengths 1-40 (including shorter than the delay); every submitted action is unique, so each executed "
        "allocation is attributable to exactly one submission. Over the recorded track record: entry k carries the "
        "allocation of the action submitted at step k-d (null allocation for k<d), one entry per step, and every trade is "
        "priced at the last quote of its contract stamped <= t+latency in the scenario's event list. Non-trivial: >=2 "
        "executions, >=1 trade and >=1 probe; distinct = distinct (delay, latency class, placement classes, space type, "
        "episode length) combinations")
ASSUMPTIONS = [
    "bar-shaped streams; full history replayed at reset (no markov reset / warm-up horizon in this profile), so 'last quote stamped <= t+latency' is well defined",
    "actions are in-space; NLV stays positive (moderate leverage, +-3% moves)",
]
COMPONENTS = {"real": ["TradingEnv.step (delay deque)", "Transmitter", "PortfolioSpace.null_action/make_rebalancing_request", "Broker.rebalance", "Exchange"],
              "harness": ["delivery model", "plain-list delay queue model"], "stub": []}
PROBE_FLOORS = {"second_episode_on_same_env": 169, "delay_ge_2": 241, "discrete_with_delay": 100, "quote_exactly_on_latency_bound": 65,
                "quote_1us_after_latency_bound": 43, "episode_shorter_than_delay": 20, "trade_priced": 2000, "step_refused_because_of_a_malformed_action": 40, "late_event_with_latency": 70, "thinly_quoted_contracts": 120, "environment_construction_refused": 40, "episode_on_a_second_environment_with_another_latency": 20}

PROFILE = {
    "n_min": 2, "n_max": 12, "n_long": 40, "p_long": 0.1, "c_min": 1, "c_max": 3, "p_bar": 1.0, "extras_max": 10,
    "extra_kinds": ["nbbo", "nbbo", "nbbo", "custom"], "p_sparse_grid": 0.0, "p_folds": 0.2, "p_markov": 0.0, "p_warmup": 0.0,
    "delays": [0, 1, 1, 2, 3, 4], "contract_kinds": ["ETF", "ETF", "spot", "margined", "future"], "p_with_cash": 0.2,
    "fixed_fees": [0, 0, 0.01], "p_rate": 0.2,
}


def generate(rng, i):
    if i % 12 == 11:
        # the tabular environment configured with delays 0..3 (its constructor forwards the delay): the same FIFO rule
        from tesim.props import c17
        return c17.generate_xy(rng, i)
    pf = PROFILE
    if rng.random() < 0.2:
        # thinly quoted contracts: every contract has a bar at the first timestep and the first contract at all of
        # them, the others miss some bars (the last quote stamped <= t + latency is then an older one)
        pf = dict(PROFILE, p_bar=0.7, bar_at_first=True)
    env = gen_epi.gen_env(rng, pf)
    env["thin"] = pf is not PROFILE
    if env["thin"] and env["latency_us"] > 0 and len(env["contracts"]) >= 2 and len(env["grid"]) >= 4:
        # motif: an episode that starts mid-stream (a fold) on a timestep where some contract has no bar and whose
        # latest quote lies inside the previous timestep's latency window
        from datetime import timedelta
        grid = [core.parse_t(g) for g in env["grid"]]
        k = rng.randint(1, len(grid) - 2)
        c = rng.randrange(1, len(env["contracts"]))
        env["events"] = [e for e in env["events"] if not (e["type"] == "nbbo" and e["c"] == c and grid[k - 1] < core.parse_t(e["t"]) <= grid[k] + timedelta(microseconds=env["latency_us"]))]
        t = grid[k - 1] + timedelta(microseconds=rng.choice([env["latency_us"], max(1, env["latency_us"] // 2)]))
        ref = [e for e in env["events"] if e["type"] == "nbbo" and e["c"] == c]
        mid = (ref[0]["bid"] + ref[0]["ask"]) / 2 * rng.choice([0.9, 1.1])
        env["events"].append({"t": core.iso(t), "type": "nbbo", "c": c, "bid": mid, "ask": mid, "id": 90000})
        env["folds"] = {"a": [env["grid"][0], env["grid"][k - 1]], "b": [env["grid"][k], env["grid"][-1]]}
    if env["space"]["type"] == "discrete" and rng.random() < 0.5:
        n = len(env["space"]["allocations"][0])
        env["space"]["allocations"][0] = [rng.choice([0.0, 0.1, 0.2]) for _ in range(n)]
    if env["space"]["type"] == "discrete":
        # make rows distinct so that an executed row identifies its index
        rows = env["space"]["allocations"]
        for j, r in enumerate(rows):
            r[0] = round(r[0] + 0.001 * j, 6)
    fold = rng.choice(list(env["folds"])) if env["folds"] else None
    script = gen_epi.full_episode_script(rng, env, fold=fold, unique=True)
    if rng.random() < 0.15 and len(script) > 2:
        script = script[:rng.randint(2, len(script))]       # episode ends early (abandoned)
    if rng.random() < 0.35:
        # repeated episodes on one environment: timing must be the same in every one of them
        for _ in range(rng.randint(1, 2)):
            script = script + gen_epi.full_episode_script(rng, env, fold=fold, unique=True)
    if env["space"]["type"] == "box" and rng.random() < 0.25:
        # the agent fills the space's own flat template (null_action()) in place and submits it, step after step
        for op in script:
            if op["op"] == "step" and isinstance(op["action"], list):
                op["action"] = {"as": "template", "v": op["action"]}
        env["template_actions"] = True
    if rng.random() < 0.12:
        # fault: the transmitter is handed one more event after the environment was built (before some reset)
        resets = [j for j, op in enumerate(script) if op["op"] == "reset"]
        script.insert(rng.choice(resets), {"op": "late_add", "env": 0})
    if rng.random() < 0.08 and len(env["grid"]) >= 2:
        # error path: a refused attempt to build another environment on the same transmitter (latency >= smallest gap)
        pos = rng.randrange(len(script) + 1)
        script.insert(pos, {"op": "bad_env", "env": 0, "factor": rng.choice([1.0, 1.5, 10.0])})
    return {"kind": "epi", "envs": [env], "clock0": "1999-01-01T00:00:00", "script": script, "prng": rng.randrange(2 ** 31)}


def execute(scenario):
    if scenario.get("kind") == "xy":
        from tesim.props import c17
        out = c17.execute_xy(scenario)
        for v in out["violations"]:
            if v["clause"] == "allocation_not_action":
                v["clause"] = "fifo_delay"
                v["sig"] = {"kind": "xy"}
        return out
    sim = epi.run_scenario(scenario)
    env_spec = scenario["envs"][0]
    d = Delivery(env_spec, gen_epi.auto_disc(env_spec))
    violations, probes, violate, probe = epicheck.mk_violation_sink()
    h = sim.handles[0]
    delay = env_spec.get("delay", 0)
    cur_gen = 0
    for ei, ep in enumerate(h.episodes):
        if ei > 0:
            probe("second_episode_on_same_env")
        if ep.get("gen", 0) != cur_gen:
            # this episode runs on a later environment object of the same transmitter: it is judged by its own latency
            cur_gen = ep.get("gen", 0)
            env_spec = h.gen_specs[cur_gen]
            d = Delivery(env_spec, gen_epi.auto_disc(env_spec))
            probe("episode_on_a_second_environment_with_another_latency")
        if ep["failed"]:
            violate("unexpected_exception", "reset raised {}: {}".format(ep["reset"]["exc"], ep["reset"].get("msg")), exc=ep["reset"]["exc"], where="reset")
            break
        steps = epicheck.visited_steps(d, env_spec, ep)
        if steps is None:
            violate("unexpected_state", "cannot locate the episode's first timestep from the clock {}".format(ep["reset"]["now"]), kind="start")
            break
        submitted = []
        valid = []          # call indices of the in-space submissions, in order
        bad_seen = False
        n_done = 0          # executions so far in this episode
        execs = [r for r in sim.sink.records if r["kind"] == "EXEC" and r["env"] == 0 and ep["reset"]["seq"] < r["seq"]]
        for call, st in enumerate(ep["steps"]):
            if st["done_before"]:
                break
            submitted.append(st["action"])
            a_spec = uncanon(st["action"])
            if isinstance(a_spec, dict) and "bad" in a_spec:
                bad_seen = True
            else:
                valid.append(call)
            if st.get("exc") is not None and bad_seen and st["exc"] in ("ValueError", "TypeError", "IndexError", "KeyError", "AssertionError"):
                # a malformed action was submitted: it is rejected at some step up to the one at which it is due (when,
                # and how often, is C17's business).  A refused call makes no decision and uses up no timestep; no
                # in-space submission may get lost over it: the executions that follow continue the FIFO sequence
                probe("step_refused_because_of_a_malformed_action")
                continue
            # the n-th execution of the episode happens at the n-th timestep and carries the (n-d)-th in-space submission
            k = n_done
            if st.get("exc") is not None:
                violate("unexpected_exception", "step {} raised {}: {} [{}]".format(k, st["exc"], st.get("msg"), st.get("site")),
                        op=k, exc=st["exc"], where="step", site=st.get("site"))
                break
            ex = [r for r in execs if st["seq"] < r["seq"] < st["end_seq"]]
            if len(ex) != 1:
                violate("one_execution_per_step", "step {} executed {} rebalances".format(k, len(ex)), op=k, kind="count")
                break
            reb = ex[0]["rebalancing"]
            if ex[0]["n_rec_after"] != ex[0]["n_rec_before"] + 1:
                violate("one_execution_per_step", "step {} added {} track-record entries".format(k, ex[0]["n_rec_after"] - ex[0]["n_rec_before"]), op=k, kind="entries")
                break
            # FIFO delay: allocation executed at step k is the one submitted at k-d, else the null action
            src = k - delay
            n_done += 1
            if src >= len(valid):
                violate("fifo_delay", "execution {} (delay {}) happened although only {} in-space decisions were submitted so far".format(k, delay, len(valid)), op=k, kind="delayed")
                break
            want = epicheck.allocation_of_action(h, scenario_action(scenario, ep, valid[src])) if src >= 0 else epicheck.null_allocation(h)
            got = reb["alloc"]
            if got != want:
                kind = "null_phase" if src < 0 else "delayed"
                # which submission (if any) does it correspond to?
                match = [j for j in valid if epicheck.allocation_of_action(h, scenario_action(scenario, ep, j)) == got]
                violate("fifo_delay", "step {} (delay {}) executed allocation {} but the action submitted at step {} denotes {} (matches submissions {})".format(
                    k, delay, got, src if src >= 0 else "<null>", want, match), op=k, kind=kind)
                break
            if src < 0:
                probe("null_action_executed")
            # latency pricing: last quote stamped <= t + latency, t = preceding timestep
            if k >= len(steps) - 1:
                violate("too_many_steps", "step {} executed but the episode has only {} timesteps".format(k, len(steps)), op=k, kind="count")
                break
            limit = us(steps[k]) + d.lat_us
            for tr in reb["trades"]:
                best = None
                for (t, _, eid, es) in d.events:
                    if es["type"] == "nbbo" and us(t) <= limit and epicheck.event_symbol(h, es) == tr["sym"]:
                        best = es
                if best is None:
                    violate("latency_pricing", "trade of {} at step {} but no quote stamped <= t+latency exists".format(tr["sym"], k), op=k, kind="no_quote")
                    break
                px = best["ask"] if tr["q"] > 0 else best["bid"]
                if tr["bid"] != best["bid"] or tr["ask"] != best["ask"] or tr["px"] != px:
                    later = [es for (t, _, eid, es) in d.events if es["type"] == "nbbo" and epicheck.event_symbol(h, es) == tr["sym"]
                             and us(t) > limit and (es["bid"], es["ask"]) == (tr["bid"], tr["ask"])]
                    violate("latency_pricing", "step {}: trade of {} priced {}:{} (exec {}) but the last quote stamped <= {}+latency is {}:{}".format(
                        k, tr["sym"], tr["bid"], tr["ask"], tr["px"], steps[k], best["bid"], best["ask"]), op=k,
                        kind="priced_at_later_quote" if later else "priced_at_stale_quote")
                    break
                probe("trade_priced")
                # the execution is not stamped earlier than a quote of the latency window that priced one of its trades
                # (that quote was applied *before* it)
                t_best = core.parse_t(best["t"]) if isinstance(best["t"], str) else best["t"]
                t_exec = reb["time"]
                t_exec = t_exec.to_pydatetime() if hasattr(t_exec, "to_pydatetime") else t_exec
                if us(t_best) > us(steps[k]) and getattr(t_exec, "tzinfo", None) is None:
                    probe("trade_priced_at_a_quote_of_the_latency_window")
                    if us(t_exec) < us(t_best):
                        violate("execution_stamp", "step {}: the execution is stamped {} but its trade of {} is priced at the quote stamped {} (inside the latency window after {})".format(
                            k, t_exec, tr["sym"], t_best, steps[k]), op=k, kind="stamped_before_its_quote")
                        break
            if violations:
                break
        if violations:
            break
        n_exec = sum(1 for st in ep["steps"] if st.get("exc") is None and not st["done_before"])
        if env_spec.get("thin"):
            probe("thinly_quoted_contracts")
        if env_spec.get("template_actions") and delay >= 1:
            probe("actions_written_into_the_space_template_with_delay")
        if ei == 0 and sim.faults.get("environment_construction_refused"):
            probe("environment_construction_refused")
        if delay >= 2:
            probe("delay_ge_2")
        if sim.faults.get("events_added_after_construction") and env_spec["latency_us"]:
            probe("late_event_with_latency")
        if env_spec["space"]["type"] == "discrete" and delay > 0 and n_exec > 0:
            probe("discrete_with_delay")
        if 0 < n_exec <= delay:
            probe("episode_shorter_than_delay")
    import bisect
    cls = []
    for (t, _, eid, es) in d.events:
        if es["type"] != "nbbo" or t < d.G[0] or t > d.G[-1]:
            continue
        i = bisect.bisect_left(d.G, t)
        if d.G[i] == t or i == 0:
            continue
        off = us(t) - us(d.G[i - 1])
        if d.lat_us > 0 and off == d.lat_us:
            probe("quote_exactly_on_latency_bound")
            cls.append("L")
        elif d.lat_us > 0 and off == d.lat_us + 1:
            probe("quote_1us_after_latency_bound")
            cls.append("l")
        elif off < d.lat_us:
            cls.append("i")
        else:
            cls.append("m")
    n_trades = probes.get("trade_priced", 0)
    n_execs = sum(1 for r in sim.sink.records if r["kind"] == "EXEC")
    trace = "d{}|lat{}|{}|{}|n{}|{}".format(delay, 0 if d.lat_us == 0 else (2 if d.lat_us >= 10 ** 6 else 1), "".join(cls), env_spec["space"]["type"],
                                           len(d.G), n_execs)
    sim.stats["sim_seconds"] = int((d.G[-1] - d.G[0]).total_seconds())
    return {"violations": violations, "digest": core.digest(sim.log_for_digest()), "probes": probes, "faults": sim.faults,
            "stats": sim.stats, "trace": trace, "nontrivial": n_execs >= 2 and n_trades >= 1 and len(probes) >= 1}


def scenario_action(scenario, ep, j):
    """The j-th action submitted in this episode, from the scenario script."""
    # steps of an episode are recorded in order; their 'action' is the canonical form of the script's action
    return uncanon(ep["steps"][j]["action"])


def uncanon(a):
    if isinstance(a, dict) and "v" in a:
        return dict(a, v=uncanon(a["v"]))
    if isinstance(a, list):
        return [float.fromhex(x) if isinstance(x, str) else x for x in a]
    return a


def describe(scenario):
    if scenario.get("kind") == "xy":
        from tesim.props import c17
        return c17.describe(scenario)
    return gen_epi.describe(scenario)


def shrink_paths(scenario):
    if scenario.get("kind") == "xy":
        return [("actions",)]
    return [("script",), ("envs", 0, "events")]


from tesim.props.c04 import simplify as _simplify_epi, in_domain as _in_domain_epi  # noqa: E402


def simplify(scenario):
    if scenario.get("kind") == "xy":
        return
    for c in _simplify_epi(scenario):
        yield c


def in_domain(scenario):
    return True if scenario.get("kind") == "xy" else _in_domain_epi(scenario)


generate = gen_epi.with_backtest_driver(generate, 0.2)
_generate_bt = generate


def generate(rng, i):
    sc = _generate_bt(rng, i)
    if i % 5 == 3 and sc.get("kind") == "epi" and sc.get("driver") != "backtest":
        # a latency sweep over the same market data: a new TradingEnv object is built on the same transmitter, with
        # another latency, before one of the later episodes (spot contracts only: the environment adds no events of
        # its own).  Laid out without consuming draws of the generator's stream
        env = sc["envs"][0]
        resets = [j for j, op in enumerate(sc["script"]) if op["op"] == "reset"]
        if env["latency_us"] > 0 and len(resets) >= 2 and not gen_epi.auto_disc(env) and not any(op["op"] in ("late_add", "bad_env") for op in sc["script"]):
            new_lat = 0 if (i // 5) % 2 == 0 else env["latency_us"] // 2
            sc["script"].insert(resets[1 + (i // 10) % (len(resets) - 1)], {"op": "new_env", "env": 0, "add": [], "latency_us": new_lat})
    if i % 7 == 2 and sc.get("kind") == "epi" and sc.get("driver") != "backtest" and sc["envs"][0].get("delay", 0) >= 1:
        # fault: one action outside the space is submitted somewhere in the first episode and the caller carries on after
        # the error: the in-space decisions before and after it are executed all the same, none dropped, in order.
        # Laid out without consuming draws of the generator's stream
        import random
        r2 = random.Random("bad-action:{}".format(i))
        script = sc["script"]
        first = [j for j, op in enumerate(script) if op["op"] == "step"]
        resets = [j for j, op in enumerate(script) if op["op"] == "reset"]
        if first and resets:
            end = resets[1] if len(resets) >= 2 else len(script)
            cand = [j for j in first if j < end]
            if cand:
                pos = r2.choice(cand)
                bad = {"bad": r2.choice(["above", "nan", "below"])} if sc["envs"][0]["space"]["type"] == "box" else {"bad": "index_high"}
                script.insert(pos, {"op": "step", "env": 0, "action": bad})
                sc["malformed_action_inserted"] = True
    return sc
