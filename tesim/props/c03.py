"""C03 - rebalancing reaches the requested target allocation."""
from tesim import acct, gen_acct

PROP = "C03"
PLAN = {"quick": 10000, "thorough": 500000}
TIMEOUT = 20
CHUNK = 250
RULE = ("seeded swarm of account histories (prior holdings reached through random trades and rebalances: long, short, "
        "leveraged, mixed spot/margined) followed by rebalances to random targets (negative, >1, zero weights; weight and "
        "number-of-contract measures; no threshold); post-condition checked after every rebalance against the exact "
        "ledger: pos x mult x execution-side quote == w x NLV_pre, untargeted holdings closed, nr-contract targets exact; "
        "in frictionless runs also weights == w, NLV unchanged and an immediate second rebalance trades nothing of "
        "economic size. One run in six goes through the environment: actions of continuous and discrete portfolio spaces in "
        "weights or number-of-contract mode must be reached by the step that executes them. Non-trivial: >=1 rebalance with >=1 trade and >=1 probe; distinct abstract traces among those")
ASSUMPTIONS = [
    "no trade threshold, fractional trading (threshold and whole lots are C12)",
    "targets whose size is below 1e-4 contracts are not judged (Broker.transact documents flattening of |q| < 1e-7)",
    "NLV before the rebalance is positive; all quotes present with 0 < bid <= ask",
]
COMPONENTS = {"real": ["Exchange", "Broker", "Rebalancing", "Weights/NrContracts", "Trade", "BrokerFees", "contracts"],
              "harness": ["user-defined AbstractContract subclasses", "Fraction ledger"], "stub": []}
PROBE_FLOORS = {"flip_by_rebalance": 30, "leveraged_target": 30, "target_margined_and_spot": 30,
                "frictionless_rebalance": 30, "second_identical_rebalance": 10,
                "env_level_target_checked": 300, "env_fractional_contract_target_reached": 20}

PROFILE = {
    "oracles": ["c03"],
    "mix": {"quote": 3, "trade": 1.5, "rebal": 3, "mark": 0.3, "value": 0.5, "advance": 0.2},
    "always": ("rebal",),
    "p_margined": 0.5, "p_observe_every": 0.3, "p_frictionless": 0.35, "p_again": 0.5, "p_weight": 0.8, "p_sizes": 0.15,
    "motifs": [(0.15, gen_acct.motif_flip)],
}


def generate(rng, i):
    if i % 6 == 5:
        from tesim.props import c03_epi
        return c03_epi.generate(rng, i)
    return gen_acct.generate(rng, PROFILE)


def execute(scenario):
    if scenario.get("kind") == "epi":
        from tesim.props import c03_epi
        return c03_epi.execute(scenario)
    return acct.execute(scenario, PROP)


def describe(scenario):
    if scenario.get("kind") == "epi":
        from tesim import gen_epi
        return gen_epi.describe(scenario)
    return gen_acct.describe(scenario)


def shrink_paths(scenario):
    return [("script",)]


from tesim.props.c01 import simplify as _simplify_acct  # noqa: E402


def simplify(scenario):
    if scenario.get("kind") == "epi":
        return
    for c in _simplify_acct(scenario):
        yield c
