"""Account executor: drives Exchange + Broker through their public methods from
an explicit op script, with an exact-arithmetic reference ledger evaluated
after every operation.  Serves C01, C03, C05, C12, C13 (and parts of C14).

The reference models are written from the property statements; they never call
tradingenv arithmetic.  Inputs are the scenario's floats, lifted to Fractions.
"""
import math
import os
import sys
import json
from fractions import Fraction as F
from datetime import datetime, timedelta

from tesim import core
from tesim.core import canon
from tesim import world
from tradingenv.broker.broker import Broker, EndOfEpisodeError
from tradingenv.broker.trade import Trade
from tradingenv.broker.rebalancing import Rebalancing
from tradingenv.exchange import Exchange
from tradingenv.events import EventNBBO, EventContractDiscontinued
from tradingenv.contracts import Cash, Rate

EPSILON = F(1, 10 ** 7)   # Broker's documented flattening threshold (constructor default)
REL_TOL = 1e-9
NAN = float("nan")


def isnan(x):
    return x != x


def unset(x):
    """Attributes of a Rebalancing that Broker.rebalance has not filled yet."""
    return x is Ellipsis or x is None


def is_pow2(x):
    if x <= 0:
        return False
    m, _ = math.frexp(x)
    return m == 0.5


def small_dyadic(fr, bits=40):
    """True if the exact rational is a dyadic with a short numerator, i.e. it
    is exactly representable and so are its small sums/products."""
    d = fr.denominator
    return d & (d - 1) == 0 and abs(fr.numerator) < (1 << bits) and d < (1 << bits)


class Ledger(object):
    """Exact cash-flow ledger: NLV = deposit + interest - commissions
    + sum_c mult_c * (pos_c * liq_c - sum q * exec)."""

    def __init__(self, specs, deposit, fees):
        self.n = len(specs)
        params = [world.contract_params(s) for s in specs]
        self.mult = [F(p[0]) for p in params]
        self.cashreq = [F(p[1]) for p in params]
        self.mreq = [F(p[2]) for p in params]
        self.pos = [F(0)] * self.n
        self.flows = [F(0)] * self.n
        self.comm = F(0)
        self.interest = F(0)
        self.deposit = F(deposit)
        self.book = [(NAN, NAN)] * self.n
        self.alive = [True] * self.n
        self.fixed = F(fees.get("fixed", 0.0))
        self.prop = F(fees.get("prop", 0.0))
        self.scale = abs(float(deposit))
        self.slack = 0.0
        self.flattened = 0

    def liq_side(self, i, pos=None):
        pos = self.pos[i] if pos is None else pos
        bid, ask = self.book[i]
        return bid if pos >= 0 else ask

    def liq_missing(self, i):
        return self.pos[i] != 0 and isnan(self.liq_side(i))

    def any_liq_missing(self):
        return any(self.liq_missing(i) for i in range(self.n))

    def nlv(self):
        total = self.deposit + self.interest - self.comm
        for i in range(self.n):
            if self.pos[i] != 0:
                total += self.mult[i] * self.pos[i] * F(self.liq_side(i))
            total -= self.mult[i] * self.flows[i]
        return total

    def notional(self, i):
        if self.pos[i] == 0:
            return F(0)
        return self.mult[i] * self.pos[i] * F(self.liq_side(i))

    def bump_scale(self):
        g = 0.0
        for i in range(self.n):
            if self.pos[i] != 0 and not isnan(self.liq_side(i)):
                g += abs(float(self.notional(i)))
        self.scale = max(self.scale, g)

    def tol(self):
        return REL_TOL * self.scale + self.slack

    def commission(self, i, q, px):
        return self.fixed + self.prop * abs(F(q) * F(px) * self.mult[i])

    def apply_trade(self, i, q, px):
        """q, px: floats as executed."""
        self.comm += self.commission(i, q, px)
        self.pos[i] += F(q)
        self.flows[i] += F(q) * F(px)
        if self.pos[i] != 0 and abs(self.pos[i]) < EPSILON:
            # documented approximation of Broker.transact: a residual smaller
            # than epsilon is dropped (its value leaves the account)
            self.slack += float(abs(self.pos[i]) * F(px) * self.mult[i])
            self.pos[i] = F(0)
            self.flattened += 1
        self.bump_scale()


class Violation(Exception):
    pass


class AcctSim(object):
    """Executes one acct scenario. `oracles` is a set of names:
    c01 (ledger identity + deltas), c05 (margins/decomposition/weights),
    c03 (rebalance reaches target), c12 (trade filtering), c13 (missing prices)."""

    def __init__(self, scenario, prop):
        self.sc = scenario
        self.prop = prop
        self.oracles = set(scenario.get("oracles", []))
        self.specs = scenario["contracts"]
        self.contracts = [world.build_contract(s) for s in self.specs]
        self.fees_spec = scenario.get("fees", {})
        self.fees = world.build_fees(self.fees_spec)
        self.deposit = scenario["deposit"]
        self.t = core.parse_t(scenario.get("t0", "2019-01-01T00:00:00"))
        self.ex = Exchange()
        self.ex.process_EventNBBO(EventNBBO(self.t, Cash(), 1.0, 1.0))
        self.ex.process_EventNBBO(EventNBBO(self.t, Rate(world.RATE_NAME), 0.0, 0.0))
        self.broker = Broker(self.ex, deposit=self.deposit, fees=self.fees)
        self.L = Ledger(self.specs, self.deposit, self.fees_spec)
        self.observe_every = scenario.get("observe", "every") == "every"
        self.log = []
        self.violations = []
        self.probes = {}
        self.faults = {}
        self.stats = {"ops": 0, "trades": 0, "rebalances": 0, "skipped_ops": 0}
        self.trace = []
        self.last_nlv = None          # (model nlv Fraction) at last observation
        self.k = -1
        self.cash = Cash()
        self.rate = 0.0
        self.accrual_started = False
        self.tainted = False
        self.pos_scale = [0.0] * len(self.specs)
        self.nlv_obs = []
        # schedule dimension: a second, unrelated account (its own exchange, broker and fees) lives in the same
        # process, holds the same contracts at other prices and is traded/valued in between the primary's operations
        self.nb = None
        if scenario.get("neighbour") is not None:
            import random as _random
            nb_ex = Exchange()
            nb_ex.process_EventNBBO(EventNBBO(self.t, Cash(), 1.0, 1.0))
            nb_ex.process_EventNBBO(EventNBBO(self.t, Rate(world.RATE_NAME), 0.0, 0.0))
            self.nb = {"ex": nb_ex, "broker": Broker(nb_ex, deposit=3.0 * abs(self.deposit) + 1e6, fees=world.build_fees({})),
                       "rng": _random.Random("nb:{}".format(scenario["neighbour"])), "quoted": set()}

    def neighbour_activity(self, op):
        """The unrelated account moves: never an oracle subject itself (whatever it raises is its own business)."""
        nb = self.nb
        r = nb["rng"]
        try:
            if op["op"] == "quote" and not (isnan(op["bid"]) or isnan(op["ask"])):
                i = op["c"]
                f = r.choice([0.37, 0.8, 1.0, 1.31, 2.5])
                nb["ex"].process_EventNBBO(EventNBBO(self.t, self.contracts[i], op["bid"] * f, op["ask"] * f))
                nb["quoted"].add(i)
            if nb["quoted"]:
                i = r.choice(sorted(nb["quoted"]))
                what = r.random()
                if what < 0.45:
                    book = nb["ex"][self.contracts[i]]
                    q = r.choice([1.0, -1.0, 2.5, -3.0, 10.0])
                    nb["broker"].transact(Trade(self.t, self.contracts[i], q, book.bid_price, book.ask_price, nb["broker"].fees))
                    self.fault("neighbour_account_traded")
                elif what < 0.8:
                    nb["broker"].net_liquidation_value(raise_if_broke=False)
                    self.fault("neighbour_account_valued")
                else:
                    nb["broker"].marking_to_market()
                    self.fault("neighbour_account_marked")
        except Exception:
            self.fault("neighbour_account_raised")

    # -- helpers --------------------------------------------------------
    def probe(self, name, n=1):
        self.probes[name] = self.probes.get(name, 0) + n

    def fault(self, name, n=1):
        self.faults[name] = self.faults.get(name, 0) + n

    def violate(self, clause, msg, **sig):
        if self.violations:
            return
        self.violations.append({"clause": clause, "sig": sig, "op": self.k, "msg": msg})

    def idx_of(self, contract):
        for i, c in enumerate(self.contracts):
            if c == contract:
                return i
        return None

    def abstract_state(self):
        L = self.L
        signs = []
        for i in range(L.n):
            kind = "m" if L.mreq[i] > 0 else "s"
            s = "+" if L.pos[i] > 0 else ("-" if L.pos[i] < 0 else "0")
            q = "x" if (isnan(L.book[i][0]) or isnan(L.book[i][1])) else ("=" if L.book[i][0] == L.book[i][1] else "<")
            signs.append(kind + s + q + ("" if L.alive[i] else "D"))
        return "".join(sorted(signs))

    def snapshot_getters(self):
        hq = self.broker.holdings_quantity
        hm = self.broker.holdings_margins
        return ([hq.get(c, 0.0) for c in self.contracts], hq.get(self.cash, 0.0),
                [hm.get(c, 0.0) for c in self.contracts])

    # -- oracles --------------------------------------------------------
    def check_positions(self, tag):
        pos, cash, margins = self.snapshot_getters()
        for i in range(self.L.n):
            want = float(self.L.pos[i])
            self.pos_scale[i] = max(self.pos_scale[i], abs(want), abs(pos[i]))
            if abs(pos[i] - want) > 1e-9 * max(1.0, abs(want)) + 1e-13 * self.pos_scale[i]:
                self.violate("positions", "{}: position of {} is {} but the trades executed sum to {}".format(
                    tag, self.specs[i]["name"], pos[i], want), kind="position_mismatch")
                return False
            # follow the reported float position (difference is rounding only), so
            # that rounding does not accumulate into the predictions that follow
            self.L.pos[i] = F(pos[i])
        return True

    def check_margin_of(self, i, margins, tag):
        """C05: margin posted == requirement x multiplier x |position| x liquidation price."""
        L = self.L
        m = margins[i]
        if L.mreq[i] == 0:
            if m != 0:
                self.violate("margin_no_requirement", "{}: contract {} has no margin requirement but holds margin {}".format(
                    tag, self.specs[i]["name"], m), kind="spot")
            return
        if L.pos[i] == 0:
            want = 0.0
        else:
            px = L.liq_side(i)
            if isnan(px):
                return
            want = float(L.mreq[i] * L.mult[i] * abs(L.pos[i]) * F(px))
        if L.pos[i] == 0 and m != 0:
            # "zero when flat" is exact: no tolerance can excuse margin posted for no position (e.g. for a
            # residual that the broker rounded away)
            self.violate("margin_invariant", "{}: margin of {} is {} although the position is flat".format(tag, self.specs[i]["name"], m),
                         kind="flat_not_zero")
        elif m < 0:
            self.violate("margin_negative", "{}: margin of {} is negative: {}".format(tag, self.specs[i]["name"], m), kind="margined")
        elif abs(m - want) > L.tol():
            self.violate("margin_invariant", "{}: margin of {} is {} expected {} (req {} x mult {} x |pos| {} x liq {})".format(
                tag, self.specs[i]["name"], m, want, float(L.mreq[i]), float(L.mult[i]), float(abs(L.pos[i])), L.liq_side(i)),
                kind="after_" + tag.split(":")[0])

    def observe_valuation(self, tag, after_trade=None, weights_first=False):
        """Value the account through the public API and evaluate C01/C05 (and
        C13's valuation clauses).  weights_first: the first valuation call after whatever happened
        before is holdings_weights() (not the NLV), judged against the account as it is afterwards."""
        L = self.L
        b = self.broker
        missing = L.any_liq_missing()
        if missing:
            if "c13" in self.oracles:
                self.check_valuation_raises(tag)
            return None
        w_first = None
        if weights_first and "c05" in self.oracles and float(L.nlv()) > L.tol() * 10:
            try:
                w_first = b.holdings_weights()
            except Exception as e:
                self.violate("unexpected_exception", "{}: holdings_weights raised {!r} although every held position has a liquidation quote".format(tag, e),
                             exc=core.exc_name(e), where="holdings_weights_first")
                return None
        try:
            nlv = b.net_liquidation_value(raise_if_broke=False)
        except Exception as e:
            self.violate("unexpected_exception", "{}: net_liquidation_value raised {!r} although every held position has a liquidation quote".format(tag, e),
                         exc=core.exc_name(e), where="net_liquidation_value")
            return None
        L.bump_scale()
        m = L.nlv()
        rec = {"nlv": nlv}
        if "c01" in self.oracles:
            if isnan(nlv) or abs(nlv - float(m)) > L.tol():
                self.violate("ledger_identity", "{}: reported NLV {} but deposit+interest-commissions+sum mult*(pos*liq-flows) = {} (diff {})".format(
                    tag, nlv, float(m), nlv - float(m)), kind=self.classify_nlv_error(nlv - float(m), after_trade))
        if "c05" in self.oracles and not self.violations:
            pos, cash, margins = self.snapshot_getters()
            for i in range(L.n):
                self.check_margin_of(i, margins, "valuation:" + tag)
            tot = F(cash)
            for i in range(L.n):
                tot += F(margins[i])
                if L.cashreq[i] != 0 and L.pos[i] != 0:
                    tot += L.cashreq[i] * L.pos[i] * F(L.liq_side(i)) * L.mult[i]
            if abs(float(tot) - nlv) > L.tol():
                self.violate("decomposition", "{}: cash {} + margins {} + fully-paid liquidation values = {} but reported NLV {}".format(
                    tag, cash, sum(margins), float(tot), nlv), kind="sum")
            if w_first is not None and not self.violations:
                self.probe("weights_queried_before_any_valuation")
                for i in range(L.n):
                    e = float(L.notional(i)) / nlv
                    got = w_first.get(self.contracts[i], 0.0)
                    if abs(got - e) > 1e-9 * max(1.0, abs(e)) + L.slack / max(nlv, 1e-300):
                        self.violate("weights", "{}: weight of {} (asked before any other valuation) is {} expected pos*liq*mult/NLV = {}".format(
                            tag, self.specs[i]["name"], got, e), kind="weight_first")
                e = cash / nlv
                got = [v for k_, v in w_first.items() if type(k_).__name__ == "Cash"]
                got = got[0] if got else 0.0
                if abs(got - e) > 1e-9 * max(1.0, abs(e)) + L.slack / max(nlv, 1e-300):
                    self.violate("weights", "{}: weight of cash (asked before any other valuation) is {} but cash {} / NLV {} = {}".format(
                        tag, got, cash, nlv, e), kind="cash_weight_first")
            if float(m) > L.tol() * 10 and not self.violations:
                try:
                    w = b.holdings_weights()
                    ctx = b.context()
                    vals_liq = b.holdings_values("liquidation")
                    vals_not = b.holdings_values("notional")
                except Exception as e:
                    self.violate("unexpected_exception", "{}: weights/context raised {!r} with NLV {}".format(tag, e, nlv),
                                 exc=core.exc_name(e), where="holdings_weights")
                    return nlv
                for i in range(L.n):
                    c = self.contracts[i]
                    e = float(L.notional(i)) / nlv
                    got = w.get(c, 0.0)
                    if abs(got - e) > 1e-9 * max(1.0, abs(e)) + L.slack / max(nlv, 1e-300):
                        self.violate("weights", "{}: weight of {} is {} expected pos*liq*mult/NLV = {}".format(
                            tag, self.specs[i]["name"], got, e), kind="weight")
                    gotn = vals_not.get(c, 0.0)
                    if abs(gotn - float(L.notional(i))) > L.tol():
                        self.violate("weights", "{}: notional value of {} is {} expected {}".format(
                            tag, self.specs[i]["name"], gotn, float(L.notional(i))), kind="notional")
                    wantl = float(L.cashreq[i] * L.notional(i)) + margins[i]
                    if abs(vals_liq.get(c, 0.0) - wantl) > L.tol():
                        self.violate("decomposition", "{}: liquidation value of {} is {} expected {}".format(
                            tag, self.specs[i]["name"], vals_liq.get(c, 0.0), wantl), kind="per_contract")
                    if abs(ctx.weights.get(c, 0.0) - got) > 1e-12 * max(1.0, abs(got)) or \
                            ctx.nr_contracts.get(c, 0.0) != pos[i] or \
                            abs(ctx.margins.get(c, 0.0) - margins[i]) > L.tol():
                        self.violate("context", "{}: context() disagrees with the getters for {}".format(tag, self.specs[i]["name"]), kind="context")
                if abs(ctx.nlv - nlv) > L.tol():
                    self.violate("context", "{}: context().nlv {} != NLV {}".format(tag, ctx.nlv, nlv), kind="context_nlv")
        self.last_nlv = m
        self.nlv_obs.append((self.k, tag, nlv))
        return nlv

    def classify_nlv_error(self, err, after_trade):
        """Closed-form signatures for narrow known-finding matching."""
        return "nlv_mismatch"

    def check_valuation_raises(self, tag):
        """C13(a): a non-zero position whose liquidation side is missing makes
        every valuation raise."""
        b = self.broker
        calls = [("net_liquidation_value", lambda: b.net_liquidation_value()),
                 ("holdings_values", lambda: b.holdings_values()),
                 ("holdings_values_liquidation", lambda: b.holdings_values("liquidation")),
                 ("holdings_weights", lambda: b.holdings_weights()),
                 ("context", lambda: b.context())]
        self.probe("valuation_with_missing_liq_quote")
        for name, fn in calls:
            try:
                r = fn()
            except EndOfEpisodeError:
                # cannot happen before the missing quote is noticed, but is loud
                continue
            except Exception:
                continue
            self.violate("valuation_silent", "{}: {} returned {!r} although a non-zero position has no liquidation quote".format(
                tag, name, r if not isinstance(r, dict) else "a dict"), where=name)
            return

    # -- ops ------------------------------------------------------------
    def resolve_qty(self, op):
        L = self.L
        i = op["c"]
        bid, ask = L.book[i]
        mode = op.get("mode", "abs")
        x = op["x"]
        if mode == "abs":
            return float(x)
        if mode == "near_close":
            # closes the position up to a residual x below the broker's rounding threshold (1e-7 contracts)
            return (-float(L.pos[i]) + x) if L.pos[i] != 0 else 0.0
        if mode == "rel":
            if L.pos[i] != 0:
                return float(L.pos[i]) * x
            mode, x = "unit", (1.0 if x >= 0 else -1.0)
        if mode == "unit":
            px = ask
            if isnan(px) or px <= 0:
                return 0.0
            return x * 0.05 * self.deposit / (px * float(L.mult[i]))
        raise core.HarnessError("bad trade mode")

    def op_quote(self, op):
        i = op["c"]
        bid, ask = op["bid"], op["ask"]
        L = self.L
        old_liq = L.liq_side(i)
        # (stamp_back_s: a late print - the quote carries a stamp older than the executor's clock, e.g. older than the
        #  discontinuation that was processed before it)
        sizes = (op["bsz"], op["asz"]) if "bsz" in op else ()
        if sizes:
            self.fault("quote_with_finite_displayed_sizes")
        self.ex.process_EventNBBO(EventNBBO(self.t - timedelta(seconds=op.get("stamp_back_s", 0)), self.contracts[i], bid, ask, *sizes))
        if op.get("stamp_back_s"):
            self.fault("quote_with_an_older_stamp")
        if L.alive[i]:
            L.book[i] = (bid, ask)
        else:
            self.fault("late_quote_for_discontinued")
        if bid > ask:
            self.fault("crossed_quote")
        if isnan(bid) or isnan(ask):
            self.fault("nan_quote")
            if L.liq_missing(i):
                self.fault("nan_quote_hits_position")
        # C01 delta clause: a quote update changes NLV by pos x mult x change in liquidation price
        return {"c": i, "bid": bid, "ask": ask}

    def op_rate(self, op):
        r = op["r"]
        self.ex.process_EventNBBO(EventNBBO(self.t, Rate(world.RATE_NAME), r, r))
        self.rate = r
        return {"r": r}

    def op_disc(self, op):
        i = op["c"]
        self.ex.process_EventContractDiscontinued(EventContractDiscontinued(self.t, self.contracts[i]))
        self.L.alive[i] = False
        self.L.book[i] = (NAN, NAN)
        self.fault("discontinued")
        if self.L.pos[i] != 0:
            self.fault("discontinued_while_held")
        return {"c": i}

    def op_trade(self, op):
        L = self.L
        i = op["c"]
        bid, ask = L.book[i]
        q = self.resolve_qty(op)
        if q == 0 or isnan(bid) or isnan(ask) or isnan(q) or L.any_liq_missing():
            self.stats["skipped_ops"] += 1
            return {"skipped": True}
        if float(L.nlv()) <= L.tol() * 10:
            self.stats["skipped_ops"] += 1
            return {"skipped": "broke"}
        book = self.ex[self.contracts[i]]
        old_pos = L.pos[i]
        pre = None
        if "c01" in self.oracles and self.observe_every:
            pre = self.observe_valuation("pre-trade")
            if self.violations:
                return {}
        try:
            trade = Trade(self.t, self.contracts[i], q, book.bid_price, book.ask_price, self.fees)
            self.broker.transact(trade)
        except Exception as e:
            self.violate("unexpected_exception", "trade of {} {} raised {!r}".format(q, self.specs[i]["name"], e),
                         exc=core.exc_name(e), where="transact")
            return {}
        px = ask if q > 0 else bid
        if trade.acq_price != px:
            self.violate("execution_price", "trade of {} executed at {} but the book is {}:{}".format(q, trade.acq_price, bid, ask), kind="side")
        want_comm = float(L.commission(i, q, px))
        if abs(trade.cost_of_commissions - want_comm) > 1e-9 * max(1.0, want_comm):
            self.violate("commission", "commission {} expected fixed + proportional*|notional| = {}".format(trade.cost_of_commissions, want_comm), kind="commission")
        L.apply_trade(i, q, px)
        self.stats["trades"] += 1
        new_pos = L.pos[i]
        # probes
        if old_pos == 0:
            self.probe("open")
        elif new_pos == 0:
            self.probe("close_exactly")
            if op.get("mode") == "near_close" and F(old_pos) + F(q) != 0:
                self.probe("close_with_residual_rounded_away")
        elif (old_pos > 0) != (new_pos > 0):
            self.probe("flip_through_zero")
        elif abs(new_pos) > abs(old_pos):
            self.probe("add")
            if L.mreq[i] > 0 and ask > bid:
                self.probe("add_to_margined_under_spread")
        else:
            self.probe("reduce")
        if L.mreq[i] == 0 and L.mult[i] != 1:
            self.probe("spot_multiplier_not_1")
        if sum(1 for j in range(L.n) if L.mreq[j] > 0 and L.pos[j] != 0) >= 2:
            self.probe("two_margined_open")
        if sum(1 for j in range(L.n) if L.mreq[j] > 0 and L.pos[j] != 0) >= 3:
            self.probe("three_margined_open")
        # C05: the traded contract's margin is right immediately after the trade
        if not self.check_positions("trade"):
            return {}
        if "c05" in self.oracles:
            pos, cash, margins = self.snapshot_getters()
            self.check_margin_of(i, margins, "trade")
            if L.mreq[i] > 0 and new_pos == 0 and margins[i] == 0:
                self.probe("flat_after_close_zero_margin")
        # C01: one trade changes NLV by exactly -commission + mult*[new*liq - old*liq - q*exec]
        if "c01" in self.oracles and self.observe_every and pre is not None and not self.violations:
            post = self.observe_valuation("post-trade", after_trade=(i, q))
            if post is not None and not self.violations:
                liq_old = F(bid if old_pos >= 0 else ask) if old_pos != 0 else F(0)
                liq_new = F(bid if new_pos >= 0 else ask) if new_pos != 0 else F(0)
                want = -L.commission(i, q, px) + L.mult[i] * (new_pos * liq_new - old_pos * liq_old - F(q) * F(px))
                if abs((post - pre) - float(want)) > 2 * L.tol():
                    self.violate("trade_delta", "trade of {} {} changed NLV by {} expected {}".format(
                        q, self.specs[i]["name"], post - pre, float(want)), kind="trade_delta")
        return {"c": i, "q": q, "px": px}

    def op_mark(self, op):
        i = op.get("c")
        L = self.L
        if i is None:
            if L.any_liq_missing():
                pass
            try:
                self.broker.marking_to_market()
            except Exception as e:
                self.violate("unexpected_exception", "marking_to_market() raised {!r}".format(e), exc=core.exc_name(e), where="marking_to_market")
                return {}
            if "c05" in self.oracles:
                pos, cash, margins = self.snapshot_getters()
                for j in range(L.n):
                    self.check_margin_of(j, margins, "mark")
        else:
            try:
                self.broker.marking_to_market(self.contracts[i])
            except Exception as e:
                self.violate("unexpected_exception", "marking_to_market(c) raised {!r}".format(e), exc=core.exc_name(e), where="marking_to_market")
                return {}
            if "c05" in self.oracles:
                pos, cash, margins = self.snapshot_getters()
                self.check_margin_of(i, margins, "mark")
        return {"c": i}

    def op_value(self, op):
        nlv = self.observe_valuation("value", weights_first=bool(op.get("wf")))
        return {"nlv": nlv}

    def op_advance(self, op):
        self.t = self.t + timedelta(seconds=op["dt"])
        return {"t": self.t}

    def op_accrue(self, op):
        try:
            amt = self.broker.accrued_interest(self.t, True)
        except Exception as e:
            self.violate("unexpected_exception", "accrued_interest raised {!r}".format(e), exc=core.exc_name(e), where="accrued_interest")
            return {}
        self.L.interest += F(amt)
        return {"amt": amt}

    # .. rebalancing ......................................................
    def predict_rebalance(self, targets, measure, fractional, thr, nlv_f, absolute=True):
        """Model of C03/C12/C13: which trades must be emitted. Returns
        (must_fail, either, plan) with plan[i] = dict(target, imb, iw, emit,
        qty, near, domain_ok)."""
        L = self.L
        plan = {}
        must_fail = False
        either = False
        reasons = []
        for i in range(L.n):
            if L.liq_missing(i):
                must_fail = True
                reasons.append("held {} has no liquidation quote".format(self.specs[i]["name"]))
        if must_fail:
            return True, False, plan, reasons
        nlv = F(nlv_f)
        # boundary cases are decided exactly only if the whole account state is exactly representable with short
        # dyadic numbers: then every valuation the code makes on the way (it values the account several times, and a
        # valuation with inexact margins is not bit-stable) is exact whatever the order of its operations
        _pos, _cash, _margins = self.snapshot_getters()
        state_exact = small_dyadic(F(_cash), 30) and all(small_dyadic(F(x), 30) for x in _pos) and all(small_dyadic(F(x), 30) for x in _margins) \
            and all(isnan(b[0]) or isnan(b[1]) or (small_dyadic(F(b[0]), 20) and small_dyadic(F(b[1]), 20)) for b in L.book)
        for i in range(L.n):
            w = targets.get(i, 0.0)
            pos = L.pos[i]
            bid, ask = L.book[i]
            if w == 0 and (pos == 0 or not absolute):
                continue        # (relative mode: the allocation is a change; nothing is said about other holdings)
            exact = state_exact
            if w != 0:
                if measure == "weight":
                    px = ask if w > 0 else bid
                    if isnan(px):
                        must_fail = True
                        reasons.append("sizing side of target {} missing".format(self.specs[i]["name"]))
                        continue
                    if px == 0:
                        continue
                    target = F(w) * nlv / F(px) / L.mult[i]
                    exact = exact and is_pow2(px) and is_pow2(float(L.mult[i]))
                else:
                    target = F(w)
            else:
                target = F(0)
            imb = (target - pos) if absolute else target
            if imb == 0:
                plan[i] = {"target": target, "imb": imb, "emit": False, "qty": F(0), "near": False, "iw": F(0), "w": w, "exact": exact}
                continue
            if not fractional:
                qty = F(int(imb))     # truncation toward zero, per the statement
                frac_part = abs(imb - round(imb))
                zone = F(1, 10 ** 9) * max(1, abs(imb), abs(target), abs(pos))
                near_lot = (not (exact and small_dyadic(imb))) and (frac_part <= zone or 1 - frac_part <= zone or
                                                                     abs(abs(imb) - abs(int(imb))) <= zone)
                if round(imb) == 0:
                    near_lot = False        # next to zero both neighbours truncate to zero lots: nothing is undecided there
            else:
                qty = imb
                near_lot = False
            px2 = ask if imb > 0 else bid
            liquidation = (w == 0)
            if not fractional and qty == 0 and not near_lot:
                # sub-lot imbalance: skipped, needs no quote
                plan[i] = {"target": target, "imb": imb, "emit": False, "qty": qty, "near": False, "iw": None, "w": w, "sublot": True, "exact": exact}
                continue
            if isnan(px2):
                if thr == 0 or liquidation:
                    must_fail = True
                    reasons.append("execution side of {} missing".format(self.specs[i]["name"]))
                else:
                    either = True
                continue
            iw = L.mult[i] * imb * F(px2) / nlv if nlv != 0 else F(0)
            exact = exact and small_dyadic(iw) and small_dyadic(nlv) and small_dyadic(imb)
            near = (not exact) and abs(abs(iw) - F(thr)) <= F(1, 10 ** 9) * max(1, F(thr))
            # an imbalance that is zero up to rounding may or may not survive as a (dust) trade
            if (not exact) and abs(imb) <= F(1, 10 ** 9) * max(1, abs(target), abs(pos)):
                near = True
            emit = liquidation or abs(iw) >= F(thr)
            if (emit or near or near_lot) and (isnan(bid) or isnan(ask)):
                either = True   # only the side the trade does not execute on is missing (or emission is undecidable within rounding)
            plan[i] = {"target": target, "imb": imb, "iw": iw, "emit": emit, "qty": qty, "near": near or near_lot, "w": w,
                       "exact": exact, "liquidation": liquidation}
        return must_fail, either, plan, reasons

    def op_rebal(self, op):
        L = self.L
        b = self.broker
        self.t = self.t + timedelta(seconds=op.get("dt", 1))
        measure = op.get("measure", "weight")
        fractional = op.get("fractional", True)
        thr = op.get("margin", 0.0)
        targets = {int(k): float(v) for k, v in op["targets"].items()}
        keys = sorted(targets)
        if op.get("order") == "rev":
            keys = keys[::-1]
        cs = [self.contracts[i] for i in keys]
        vals = [targets[i] for i in keys]
        if op.get("with_cash"):
            cs = cs + [Cash()]
            vals = vals + [op["with_cash"]]
        absolute = op.get("absolute", True)
        r = Rebalancing(cs, vals, measure=measure, absolute=absolute, fractional=fractional, margin=thr, time=self.t)
        if op.get("preview"):
            # the same request object is asked for its trades first (a preview) and executed afterwards, possibly
            # after the market moved: nothing of the preview may stick to the object
            try:
                r.make_trades(b)
            except Exception:
                pass            # a preview may be refused (missing price, broke account) like the execution
            self.probe("rebalancing_previewed_then_executed")
            if op.get("preview_quote"):
                self.op_quote(op["preview_quote"])
                self.probe("market_moved_between_preview_and_execution")
        model_nlv = None if L.any_liq_missing() else L.nlv()
        broke = model_nlv is not None and float(model_nlv) <= 0
        near_broke = model_nlv is not None and abs(float(model_nlv)) <= 10 * L.tol()
        before_pos, before_cash, _ = self.snapshot_getters()
        n_rec = len(b.track_record)
        if not absolute:
            self.probe("relative_rebalance")
        # interest for the elapsed period is credited first, whatever happens next
        cash_before_interest = before_cash
        try:
            b.rebalance(r)
            err = None
        except EndOfEpisodeError as e:
            err = e
        except Exception as e:
            err = e
        credited = r.profit_on_idle_cash if not unset(r.profit_on_idle_cash) else 0.0
        if isinstance(credited, float) or isinstance(credited, int):
            L.interest += F(float(credited))
        self.stats["rebalances"] += 1
        # model expectation, evaluated on the post-interest pre-trade state
        if L.any_liq_missing():
            must_fail, either, plan, reasons = True, False, {}, ["held position without liquidation quote"]
            nlv_pre_model = None
        else:
            nlv_pre_model = L.nlv()
            # solvency is judged after the interest of the elapsed period has been credited (it is credited first)
            broke = float(nlv_pre_model) <= 0
            near_broke = abs(float(nlv_pre_model)) <= 10 * L.tol()
            ref_nlv = r.context_pre.nlv if not unset(r.context_pre) else float(nlv_pre_model)
            must_fail, either, plan, reasons = self.predict_rebalance(targets, measure, fractional, thr, ref_nlv, absolute)
        rec = {"targets": targets, "measure": measure, "fractional": fractional, "margin": thr, "absolute": absolute,
               "err": type(err).__name__ if err else None}
        if err is not None:
            after_pos, after_cash, _ = self.snapshot_getters()
            if isinstance(err, EndOfEpisodeError) and isinstance(r.trades, list):
                # every trade was executed and the valuation that follows found
                # NLV <= 0: the decision's own costs ruined the account. That
                # is C07/C09 territory (recorded there); the ledger just follows.
                for tr in r.trades:
                    i = self.idx_of(tr.contract)
                    L.apply_trade(i, tr.quantity, tr.acq_price)
                    self.stats["trades"] += 1
                post = L.nlv() if not L.any_liq_missing() else None
                if post is not None and float(post) <= 10 * L.tol():
                    self.probe("own_costs_ruin")
                    self.check_positions("rebalance")
                    return rec
                self.violate("unexpected_exception", "rebalance raised EndOfEpisodeError with model NLV {} before and {} after its trades".format(
                    float(nlv_pre_model) if nlv_pre_model is not None else None, float(post) if post is not None else None),
                    exc="EndOfEpisodeError", where="rebalance_post")
                return rec
            if isinstance(err, EndOfEpisodeError):
                if not (broke or near_broke):
                    self.violate("unexpected_exception", "rebalance raised EndOfEpisodeError with model NLV {}".format(
                        float(model_nlv) if model_nlv is not None else None), exc="EndOfEpisodeError", where="rebalance")
                self.probe("rebalance_refused_broke")
            else:
                self.fault("rebalance_failed")
                expected_failure = must_fail or either
                if not fractional and any(abs(pl.get("imb", 0)) >= 2 ** 53 for pl in plan.values()):
                    # out of domain: beyond 2**53 lots a float cannot represent a whole number of lots, so
                    # "whole lots" has no meaning (positions of 1e16+ contracts arise only in very long
                    # leveraged scripts of the thorough tier)
                    expected_failure = True
                    self.probe("whole_lot_imbalance_beyond_2_53")
                if not expected_failure and ("c13" in self.oracles or "c12" in self.oracles or "c03" in self.oracles or "c01" in self.oracles):
                    self.violate("unexpected_exception", "rebalance to {} raised {!r} although no quote it needs is missing".format(targets, err),
                                 exc=type(err).__name__, where="rebalance", fractional=fractional)
                if must_fail:
                    self.probe("rebalance_must_fail")
                elif either:
                    self.probe("rebalance_either")
            # all-or-nothing: positions and track record unchanged
            if after_pos != before_pos or len(b.track_record) != n_rec:
                self.violate("not_atomic", "failed rebalance ({!r}) changed positions {} -> {} or the track record {} -> {}".format(
                    err, before_pos, after_pos, n_rec, len(b.track_record)), exc=type(err).__name__)
            else:
                self.probe("failed_rebalance_left_positions_unchanged")
            return rec
        # succeeded
        if must_fail and "c13" in self.oracles:
            self.violate("rebalance_silent", "rebalance to {} succeeded although {}".format(targets, "; ".join(reasons)), kind="missing_quote")
            return rec
        if broke and not near_broke:
            self.violate("traded_while_broke", "rebalance executed with model NLV {} <= 0".format(float(model_nlv)), kind="broke")
            return rec
        if len(b.track_record) != n_rec + 1:
            self.violate("track_record", "successful rebalance added {} entries".format(len(b.track_record) - n_rec), kind="entries")
        # the ledger follows the trades the broker reports having executed (C01: the rebalancing path)
        got = {}
        for tr in r.trades:
            if tr.quantity == 0 and ("c12" in self.oracles or "c03" in self.oracles):
                self.violate("zero_sized_trade", "rebalance to {} produced a zero-sized trade of {}".format(targets, getattr(tr.contract, "symbol", tr.contract)), kind="zero")
                return rec
            i = self.idx_of(tr.contract)
            if i is None:
                self.violate("foreign_trade", "rebalance traded {} which is not in the world".format(tr.contract), kind="foreign")
                return rec
            bid, ask = L.book[i]
            px = ask if tr.quantity > 0 else bid
            if tr.acq_price != px and not (isnan(px)):
                self.violate("execution_price", "rebalance trade of {} {} executed at {} but book is {}:{}".format(
                    tr.quantity, self.specs[i]["name"], tr.acq_price, bid, ask), kind="side")
            if i in got:
                self.violate("duplicate_trade", "two trades for {} in one rebalance".format(self.specs[i]["name"]), kind="dup")
            got[i] = tr.quantity
            L.apply_trade(i, tr.quantity, tr.acq_price)
            self.stats["trades"] += 1
            self.probe("rebalance_built_trade")
        rec["trades"] = {str(i): q for i, q in sorted(got.items())}
        if not self.check_positions("rebalance"):
            return rec
        # pre-trade NLV reported == ledger
        if nlv_pre_model is not None and ("c01" in self.oracles or "c03" in self.oracles):
            if abs(r.context_pre.nlv - float(nlv_pre_model)) > L.tol():
                self.violate("ledger_identity", "context_pre.nlv {} but ledger {}".format(r.context_pre.nlv, float(nlv_pre_model)), kind="nlv_mismatch")
                return rec
        if "c12" in self.oracles and not self.violations:
            self.check_c12(plan, got, fractional, thr, targets)
        if "c03" in self.oracles and not self.violations and thr == 0 and fractional and absolute:
            self.check_c03(plan, targets, measure, r, op)
        return rec

    def check_c12(self, plan, got, fractional, thr, targets):
        L = self.L
        for i, p in plan.items():
            name = self.specs[i]["name"]
            if p.get("near"):
                self.probe("c12_dont_care_zone")
                continue
            emitted = i in got
            if p.get("sublot"):
                self.probe("sublot_skip")
                if emitted:
                    self.violate("filter_emission", "whole-lot imbalance {} of {} is below one lot but a trade of {} was emitted".format(
                        float(p["imb"]), name, got[i]), kind="sublot_emitted")
                continue
            if p["imb"] == 0 and emitted and fractional and not p.get("exact"):
                # the model's imbalance is exactly zero; a trade of rounding-level size (the code's own float residue of
                # w x NLV / price - position) is no statement about the filter
                zone = 1e-9 * max(1.0, abs(float(p["target"])))
                if abs(got[i]) <= zone:
                    self.probe("c12_dont_care_zone")
                    continue
            if p["emit"] != emitted:
                kind = "liquidation_skipped" if p.get("liquidation") else ("emitted_below_threshold" if emitted else "skipped_at_or_above_threshold")
                self.violate("filter_emission", "{}: imbalance weight {} threshold {} target {}: expected emit={} got {}".format(
                    name, float(p["iw"]) if p["iw"] is not None else None, thr, p["w"], p["emit"], emitted), kind=kind)
                continue
            if p["imb"] != 0 and not emitted:
                self.probe("below_threshold_skip")
            if emitted:
                q = got[i]
                if p.get("liquidation") and thr > 0 and abs(p["iw"]) < F(thr):
                    self.probe("liquidation_below_threshold")
                if p.get("exact") and p["iw"] is not None and abs(p["iw"]) == F(thr) and thr > 0:
                    self.probe("exact_threshold_emit")
                if q == 0 or isnan(q):
                    self.violate("filter_quantity", "zero-sized trade for {}".format(name), kind="zero")
                elif not fractional:
                    if q != int(q):
                        self.violate("filter_quantity", "whole-lot trade for {} has quantity {}".format(name, q), kind="non_integer")
                    elif F(q) != p["qty"]:
                        self.violate("filter_quantity", "whole-lot trade for {} is {} expected trunc({}) = {}".format(
                            name, q, float(p["imb"]), float(p["qty"])), kind="truncation")
                    elif p["imb"] < 0:
                        self.probe("negative_truncation")
                elif abs(q - float(p["qty"])) > 1e-9 * max(1.0, abs(float(p["qty"])), abs(float(p["target"])), abs(float(L.pos[i]))):
                    self.violate("filter_quantity", "trade for {} is {} expected the imbalance {}".format(name, q, float(p["qty"])), kind="quantity")
        for i in got:
            if i not in plan:
                self.violate("filter_emission", "unexpected trade of {} {} (no imbalance expected)".format(got[i], self.specs[i]["name"]), kind="unexpected_trade")

    def check_c03(self, plan, targets, measure, r, op):
        L = self.L
        nlv_pre = r.context_pre.nlv
        for i in range(L.n):
            name = self.specs[i]["name"]
            w = targets.get(i, 0.0)
            bid, ask = L.book[i]
            pos = float(L.pos[i])
            if w == 0:
                if pos != 0:
                    self.violate("untargeted_not_closed", "{} held {} after a rebalance whose target omits it".format(name, pos), kind="untargeted")
                continue
            p = plan.get(i)
            if p is None:
                continue
            if abs(p["target"]) < F(1, 10 ** 4):
                self.stats["c03_domain_skip"] = self.stats.get("c03_domain_skip", 0) + 1
                continue
            if measure == "weight":
                side = ask if w > 0 else bid
                gotv = pos * float(L.mult[i]) * side
                want = w * nlv_pre
                if abs(gotv - want) > L.tol():
                    self.violate("target_not_reached", "{}: pos*mult*quote = {} expected w*NLV_pre = {} (w={}, NLV_pre={})".format(
                        name, gotv, want, w, nlv_pre), kind="weight_target")
            else:
                if abs(pos - w) > 1e-9 * max(1.0, abs(w)):
                    self.violate("target_not_reached", "{}: position {} expected {} contracts".format(name, pos, w), kind="nr_target")
            old = p["target"] - p["imb"]
            if old != 0 and (old > 0) != (p["target"] > 0):
                self.probe("flip_by_rebalance")
        if sum(abs(v) for v in targets.values()) > 1 and measure == "weight":
            self.probe("leveraged_target")
        if any(L.mreq[i] > 0 and targets.get(i, 0) != 0 for i in range(L.n)) and any(L.mreq[i] == 0 and targets.get(i, 0) != 0 for i in range(L.n)):
            self.probe("target_margined_and_spot")
        # frictionless corollaries
        if self.sc.get("frictionless") and measure == "weight" and not self.violations:
            self.probe("frictionless_rebalance")
            post = self.observe_valuation("post-rebalance")
            if post is None or self.violations:
                return
            if abs(post - nlv_pre) > L.tol():
                self.violate("frictionless_nlv_changed", "frictionless rebalance changed NLV {} -> {}".format(nlv_pre, post), kind="nlv")
                return
            wts = self.broker.holdings_weights()
            for i in range(L.n):
                w = targets.get(i, 0.0)
                p = plan.get(i)
                if p is not None and abs(p["target"]) < F(1, 10 ** 4) and w != 0:
                    continue
                if abs(wts.get(self.contracts[i], 0.0) - w) > 1e-9 * max(1.0, abs(w)):
                    self.violate("frictionless_weights", "{}: weight after frictionless rebalance {} expected {}".format(
                        self.specs[i]["name"], wts.get(self.contracts[i], 0.0), w), kind="weights")
                    return
            if op.get("again"):
                self.t = self.t + timedelta(seconds=1)
                keys = sorted(targets)
                r2 = Rebalancing([self.contracts[i] for i in keys], [targets[i] for i in keys], measure=measure, time=self.t)
                try:
                    self.broker.rebalance(r2)
                except Exception as e:
                    self.violate("unexpected_exception", "second identical rebalance raised {!r}".format(e), exc=core.exc_name(e), where="rebalance_again")
                    return
                L.interest += F(float(r2.profit_on_idle_cash))
                self.probe("second_identical_rebalance")
                for tr in r2.trades:
                    if tr.quantity == 0:
                        self.violate("zero_sized_trade", "the second identical rebalance produced a zero-sized trade of {}".format(getattr(tr.contract, "symbol", tr.contract)), kind="zero_again")
                        return
                    i = self.idx_of(tr.contract)
                    L.apply_trade(i, tr.quantity, tr.acq_price)
                    p = plan.get(i)
                    if p is not None and abs(p["target"]) < F(1, 10 ** 4):
                        # dust: the first rebalance's position was below the broker's documented flattening
                        # epsilon (1e-7 contracts) and was dropped, so the second one legitimately asks again
                        continue
                    if abs(tr.notional) > 1e-9 * max(abs(nlv_pre), 1.0):
                        self.violate("second_rebalance_trades", "second identical rebalance traded {} of {} (notional {})".format(
                            tr.quantity, self.specs[i]["name"], tr.notional), kind="again")

    # -- checkpoint / resume in another process -------------------------------
    def checkpoint_and_resume(self, k):
        """Fault: the account is checkpointed (pickle) here and resumed in another interpreter - another hash seed,
        freshly built contract objects - which plays the rest of the script under the same oracles. (In the resuming
        process this method swaps the unpickled exchange and broker in.)"""
        import pickle
        blob = getattr(self, "resume_blob", None)
        if blob is not None:
            self.ex, self.broker = pickle.loads(blob)
            self.probe("resumed_from_a_checkpoint")
            return
        if os.environ.get("TESIM_IN_RESUME"):
            return
        import base64
        import subprocess
        import tempfile
        payload = {"scenario": self.sc, "prop": self.prop, "blob": base64.b64encode(pickle.dumps((self.ex, self.broker))).decode()}
        with tempfile.NamedTemporaryFile("w", suffix=".json", delete=False) as f:
            json.dump(payload, f)
            path = f.name
        try:
            env = dict(os.environ, PYTHONHASHSEED="4242", TESIM_IN_RESUME="1", TESIM_NO_REEXEC="1")
            main_py = os.path.join(os.path.dirname(os.path.dirname(os.path.abspath(__file__))), "tesim_main.py")
            res = subprocess.run([sys.executable, main_py, "resume-acct", path], env=env, capture_output=True, text=True, timeout=120)
        finally:
            os.unlink(path)
        line = [x for x in res.stdout.splitlines() if x.startswith("RESUMED ")]
        if not line:
            raise core.HarnessError("resume process failed: " + (res.stderr or res.stdout)[-400:])
        out = json.loads(line[-1][len("RESUMED "):])
        self.fault("checkpoint_resumed_in_another_process")
        self.probe("account_resumed_in_another_process")
        if out["violations"]:
            v = out["violations"][0]
            self.violate("resumed_account_diverges", "after being pickled at op {} and resumed in another interpreter the account violates {}: {}".format(
                k, v["clause"], v["msg"]), clause_after=v["clause"])

    # -- driver -----------------------------------------------------------
    def run(self):
        handlers = {
            "quote": self.op_quote, "rate": self.op_rate, "disc": self.op_disc, "trade": self.op_trade,
            "mark": self.op_mark, "value": self.op_value, "advance": self.op_advance, "accrue": self.op_accrue,
            "rebal": self.op_rebal,
        }
        for k, op in enumerate(self.sc["script"]):
            self.k = k
            if self.sc.get("resume_at") == k and not self.violations:
                self.checkpoint_and_resume(k)
                if self.violations:
                    break
            name = op["op"]
            pre_model = None
            L = self.L
            if name == "quote" and "c01" in self.oracles and self.observe_every and not L.any_liq_missing():
                pre_obs = self.observe_valuation("pre-quote")
                pre_liq = [F(L.liq_side(i)) if L.pos[i] != 0 else F(0) for i in range(L.n)]
            else:
                pre_obs = None
            if self.violations:
                break
            if self.nb is not None and name == "quote":
                self.neighbour_activity(op)      # just before the primary's quote: its reference prices move first
            rec = handlers[name](op)
            if self.nb is not None:
                self.neighbour_activity(op)
            self.stats["ops"] += 1
            if self.violations:
                self.log.append([k, name, canon(rec), "VIOLATION"])
                break
            if name == "quote" and pre_obs is not None and not L.any_liq_missing():
                post_obs = self.observe_valuation("post-quote", weights_first=(k % 3 == 0))
                if post_obs is not None and not self.violations:
                    i = op["c"]
                    new_liq = F(L.liq_side(i)) if L.pos[i] != 0 else F(0)
                    want = L.pos[i] * L.mult[i] * (new_liq - pre_liq[i])
                    if abs((post_obs - pre_obs) - float(want)) > 2 * L.tol():
                        self.violate("quote_delta", "quote update of {} changed NLV by {} expected pos*mult*dliq = {}".format(
                            self.specs[i]["name"], post_obs - pre_obs, float(want)), kind="quote_delta")
            elif self.observe_every and name in ("rebal", "mark", "accrue", "disc", "rate") and not self.violations:
                self.observe_valuation("after-" + name)
            pos, cash, margins = self.snapshot_getters()
            if cash < 0:
                self.probe("negative_cash")
            self.log.append([k, name, canon(rec), canon(pos), canon(cash), canon(margins)])
            self.trace.append(name[0] + ":" + self.abstract_state())
            if self.violations:
                break
        if not self.violations:
            self.k = len(self.sc["script"])
            self.observe_valuation("final")
        return self.outcome()

    def outcome(self):
        trace = "|".join(self.trace)
        nontrivial = (self.stats["trades"] >= 1 or self.stats["rebalances"] >= 1) and len(self.probes) >= 1
        self.stats["flattened"] = self.L.flattened
        return {
            "violations": self.violations, "digest": core.digest(self.log), "probes": self.probes,
            "faults": self.faults, "stats": self.stats, "trace": trace, "nontrivial": nontrivial,
        }


def execute(scenario, prop):
    seed = scenario.get("prng", 0)
    with core.sim_context(prng_seed=seed):
        sim = AcctSim(scenario, prop)
        out = sim.run()
        if scenario.get("twin") is not None and not out["violations"]:
            twin_check(scenario, prop, sim, out)
        return out


def twin_check(scenario, prop, sim, out):
    """C01, model-free: the same script on an account that differs only in that
    one contract is spot-like instead of margined (or vice versa), with no
    interest: the NLV paths must coincide - 'the same amount for a future as for
    a spot asset quoted at the same prices'."""
    import copy
    if scenario.get("fees", {}).get("fixed"):
        return      # a rounding-level dust trade made by only one of the two accounts would cost a whole fixed fee
    if any(op.get("fractional") is False for op in scenario["script"]):
        return      # whole lots: a position of 120.00000000000001 vs 120 lots truncates to 119 vs 120 - a legitimate one-lot
                    # difference between the two accounts that a model-free comparison cannot tell from a defect
    i = scenario["twin"]
    sc2 = copy.deepcopy(scenario)
    spec = sc2["contracts"][i]
    mult = world.contract_params(spec)[0]
    if spec["kind"] in ("margined", "future"):
        sc2["contracts"][i] = {"name": spec["name"], "kind": "spot", "mult": mult}
        flavour = "margined_vs_spot"
    else:
        sc2["contracts"][i] = {"name": spec["name"], "kind": "margined", "mult": mult, "mreq": scenario.get("twin_mreq", 0.25)}
        flavour = "spot_vs_margined"
    sc2["twin"] = None
    sim2 = AcctSim(sc2, prop)
    out2 = sim2.run()
    if out2["violations"]:
        out["violations"] = out2["violations"]
        return
    a = {(k, tag): v for k, tag, v in sim.nlv_obs}
    b = {(k, tag): v for k, tag, v in sim2.nlv_obs}
    tol = max(sim.L.tol(), sim2.L.tol()) * 2
    n = 0
    for key in sorted(a, key=lambda x: (x[0], x[1])):
        if key in b:
            n += 1
            if abs(a[key] - b[key]) > tol:
                out["violations"] = [{"clause": "twin_spot_vs_margined", "sig": {"kind": flavour}, "op": key[0],
                                      "msg": "{} at op {}: NLV {} but the twin account in which {} is {} has NLV {}".format(
                                          key[1], key[0], a[key], spec["name"], sc2["contracts"][i]["kind"], b[key])}]
                return
    if n:
        out["probes"]["twin_compared"] = out["probes"].get("twin_compared", 0) + 1
