"""Episode executor: builds real Transmitter + TradingEnv objects from a
scenario and drives reset()/step() from an explicit script, recording a totally
ordered log of (a) every callback of recording observers, (b) an EXEC marker at
each Broker.rebalance (wrapped on the instance), (c) every API call's result.

Several environments may live in one executor; the script says whose call
runs next (the scheduler's choices are made by the generator and are part of
the scenario, so a replay is exact)."""
import os
import math
import random
import copy
import traceback
from datetime import datetime, timedelta

import numpy as np
import pandas as pd

from tesim import core, world
from tesim.core import canon
from tradingenv.env import TradingEnv
from tradingenv.transmitter import Transmitter
from tradingenv.events import (EventNBBO, EventContractDiscontinued, EventNewObservation, IEvent)
from tradingenv.contracts import AbstractContract, Cash, Rate
from tradingenv.state import IState, State
from tradingenv.features import Feature
from tradingenv.spaces import BoxPortfolio, DiscretePortfolio
from tradingenv.broker.broker import EndOfEpisodeError
from tradingenv import rewards as R

NAN = float("nan")


# ---------------------------------------------------------------------------
# recording observers (user extension points of the API)
# ---------------------------------------------------------------------------
class InjectedCrash(Exception):
    """Raised by a recording observer when the harness injects a failure of user code."""


class Sink(object):
    """The totally ordered event log of one executor."""

    def __init__(self):
        self.records = []
        self.seq = 0
        self.envs = {}
        self.idmap = {}
        self.bombs = {}         # env tag -> callbacks left before an observer of that environment fails
        self.crash_on = {}      # env tag -> event class names on which the state observer always fails
        self.fired = 0

    def next_seq(self):
        self.seq += 1
        return self.seq

    # a forked environment (op 'fork') takes its observers along; their sink is replaced by a light one, so the
    # copy neither drags the whole log (and the other environments of the executor) along nor writes into it
    @staticmethod
    def _light(seq, bombs, crash_on):
        s = Sink()
        s.seq, s.bombs, s.crash_on = seq, dict(bombs), dict(crash_on)
        return s

    def __deepcopy__(self, memo):
        return Sink._light(self.seq, self.bombs, self.crash_on)

    def __reduce__(self):
        return (Sink._light, (self.seq, self.bombs, self.crash_on))

    def event_id(self, event):
        eid = self.idmap.get(id(event))
        if eid is not None:
            return eid
        if isinstance(event, EventContractDiscontinued):
            return "disc:{}".format(getattr(event.contract, "_symbol", None) or "?")
        return None

    def tick_bomb(self, tag):
        """Fault injection: the armed observer callback of this environment raises (a crash in user code in
        the middle of event delivery, at reset or inside a step)."""
        left = self.bombs.get(tag)
        if left is None:
            return
        left -= 1
        if left <= 0:
            self.bombs[tag] = None
            self.fired += 1
            self.records.append({"seq": self.next_seq(), "kind": "crash", "env": tag})
            raise InjectedCrash("injected observer failure")
        self.bombs[tag] = left

    def callback(self, tag, observer, event, expected_cls):
        env = self.envs.get(tag)
        self.records.append({
            "seq": self.next_seq(), "kind": "cb", "env": tag, "obs": observer,
            "cls": type(event).__name__, "slot": expected_cls, "time": event.time, "id": self.event_id(event),
            "tag": (float(event.tag) if isinstance(getattr(event, "tag", None), (int, float, np.integer, np.floating)) else None),
            "env_now": env.now() if env is not None else None, "clock": AbstractContract.now,
        })


def _mk_callbacks(observer_name, classes):
    """process_<Event> methods for the given event class names."""
    ns = {}

    def make(cls):
        def cb(self, event):
            self._sink.callback(self._tag, observer_name, event, cls)
            self._sink.tick_bomb(self._tag)
            if observer_name == "state" and cls in self._sink.crash_on.get(self._tag, ()):
                self._sink.fired += 1
                self._sink.records.append({"seq": self._sink.next_seq(), "kind": "crash", "env": self._tag, "on": cls})
                raise InjectedCrash("injected observer failure on " + cls)
            self._on_event(event)
        cb.__name__ = "process_" + cls
        return cb
    for cls in classes:
        ns["process_" + cls] = make(cls)
    return ns


ALL_EVENT_CLASSES = ["EventNBBO", "EventContractDiscontinued", "EventNewObservation", "EvA", "EvB", "EvC",
                     "EventReset", "EventStep", "EventDone", "EventNewDate"]
FEATURE_EVENT_CLASSES = ["EventNBBO", "EvA", "EventNewDate"]


class _RecStateBase(IState):
    def __init__(self, sink=None, tag=None, features=None, nvals=3):
        self._sink = sink
        self._tag = tag
        self._count = 0
        self._vals = [0.0] * nvals
        super().__init__(features)

    def _on_event(self, event):
        self._count += 1
        if isinstance(event, EventNBBO):
            m = event.mid_price
            if m == m:
                self._vals[self._count % len(self._vals)] = m
        elif isinstance(event, EventNewObservation):
            v = list(event.data.values())
            if v:
                self._vals[0] = float(v[0])
        elif hasattr(event, "tag") and isinstance(getattr(event, "tag"), (int, float, np.integer, np.floating)):
            self._vals[-1] = float(event.tag)       # custom events carry information into the observation

    def parse(self):
        own = [float(self._count)] + list(self._vals)
        # like the library's default IState.parse, the observation includes every feature's value
        for f in (self.features or []):
            own += [float(x) for x in np.ravel(f())]
        return np.array(own)


RecState = type("RecState", (_RecStateBase,), dict(_mk_callbacks("state", ALL_EVENT_CLASSES), __module__=__name__))


class _RecFeatureBase(Feature):
    """A feature with history: rolling mean of the last k mid prices seen."""

    def __init__(self, sink=None, tag=None, k=3, name=None, reads_account=False):
        self._sink = sink
        self._tag = tag
        self._k = k
        self._window = []
        self._reads_account = reads_account
        super().__init__(name=name)

    def _on_event(self, event):
        if self._reads_account and isinstance(event, EventNBBO) and getattr(self, "broker", None) is not None:
            # a feature that looks at the account whenever a quote arrives (also between the quotes of one
            # bar): valuing the account sweeps the margin accounts as a side effect, nothing else
            try:
                self.broker.net_liquidation_value(raise_if_broke=False)
            except ValueError:
                pass        # a held contract has no quote yet
        if isinstance(event, EventNBBO):
            m = event.mid_price
            if m == m:
                self._window.append(m)
                self._window = self._window[-self._k:]

    def parse(self):
        if not self._window:
            return np.array([0.0])
        return np.array([sum(self._window) / len(self._window)])


RecFeature = type("RecFeature", (_RecFeatureBase,), dict(_mk_callbacks("feature", FEATURE_EVENT_CLASSES), __module__=__name__))


class _RecFeatureSparseBase(Feature):
    """A feature that is notified rarely (custom events of one class only) but whose value is read from the
    exchange every time it is parsed: its recorded history must still be filed under the time of each parse."""

    def __init__(self, sink=None, tag=None, contract=None, name=None):
        self._sink = sink
        self._tag = tag
        self._contract = contract
        self._seen = 0
        super().__init__(name=name)

    def _on_event(self, event):
        self._seen += 1

    def parse(self):
        mid = float("nan")
        if getattr(self, "exchange", None) is not None and self._contract is not None:
            mid = self.exchange[self._contract].mid_price
        return np.array([float(self._seen), 0.0 if mid != mid else float(mid)])


from tradingenv.library import FeaturePortfolioWeight  # noqa: E402


class GuardedPortfolioWeight(FeaturePortfolioWeight):
    """The library's portfolio-weight feature; while the account cannot be valued (no broker yet, a held contract
    without a quote, an insolvent account) it reports zeros instead of failing inside the environment."""

    def parse(self):
        try:
            return super().parse()
        except Exception:
            return np.zeros((1, self._size))


RecFeatureSparse = type("RecFeatureSparse", (_RecFeatureSparseBase,), dict(_mk_callbacks("feature", ["EvA"]), __module__=__name__))


class RecFeatureInherited(RecFeature):
    """The same feature, but every callback is inherited from the parent class (a user who subclasses a
    feature to tweak parse() expects the subscriptions to come along)."""


class RecStateInherited(RecState):
    """A state whose callbacks are all inherited."""


class _RecWindowStateBase(State):
    """The library's windowed State, with recording callbacks added."""

    def __init__(self, sink=None, tag=None, n_features=1, window=1, stride=None):
        self._sink = sink
        self._tag = tag
        super().__init__(n_features, window, stride, max_=1e9)

    def _on_event(self, event):
        if isinstance(event, EventNewObservation):
            State.process_EventNewObservation(self, event)


# only the subscription the library's State has: after *every* delivered event the
# environment parses the observer, and a window State cannot be parsed before its
# first observation
_ws_ns = dict(_mk_callbacks("state", ["EventNewObservation"]), __module__=__name__)
RecWindowState = type("RecWindowState", (_RecWindowStateBase,), _ws_ns)


# ---------------------------------------------------------------------------
# builders
# ---------------------------------------------------------------------------
def to_time(s, ts_type):
    t = core.parse_t(s)
    return pd.Timestamp(t) if ts_type == "timestamp" else t


def build_reward(spec):
    spec = spec or {"cls": "RewardSimpleReturn"}
    cls = spec["cls"]
    if cls == "LogReturn":
        return R.LogReturn(scale=spec.get("scale", 1.0), clip=spec.get("clip", 2.0), risk_aversion=spec.get("risk_aversion", 0.0))
    return getattr(R, cls)()


def build_space(spec, contracts):
    cs = list(contracts)
    if spec.get("with_cash"):
        pos = spec.get("cash_pos", 0)
        cs.insert(min(pos, len(cs)), Cash())
    if spec["type"] == "box":
        return BoxPortfolio(cs, spec.get("low", -1.0), spec.get("high", 1.0), as_weights=spec.get("as_weights", True),
                            fractional=spec.get("fractional", True), margin=spec.get("margin", 0.0)), cs
    if spec["type"] == "discrete":
        return DiscretePortfolio(cs, spec["allocations"], as_weights=spec.get("as_weights", True),
                                 fractional=spec.get("fractional", True)), cs
    raise core.HarnessError("unknown space " + str(spec["type"]))


def event_contract(w, contracts, c):
    """c is an index into the world's contracts or [chain_index, member_index]."""
    if isinstance(c, list):
        if c[1] == "chain":
            return contracts[c[0]]          # the quote is addressed to the chain itself (a continuous price column)
        return contracts[c[0]].contracts[c[1]]
    if c == "rate":
        return Rate(world.RATE_NAME)
    return contracts[c]


def build_event(spec, contracts, ts_type):
    t = to_time(spec["t"], ts_type)
    ty = spec["type"]
    if ty == "nbbo":
        return EventNBBO(t, event_contract(None, contracts, spec["c"]), spec["bid"], spec["ask"])
    if ty == "rate":
        return EventNBBO(t, Rate(world.RATE_NAME), spec["r"], spec["r"])
    if ty == "custom":
        return world.CUSTOM_EVENTS[spec["cls"]](t, spec.get("tag", 0))
    if ty == "obs":
        return EventNewObservation(t, {i: v for i, v in enumerate(spec["data"])})
    if ty == "disc":
        return EventContractDiscontinued(t, event_contract(None, contracts, spec["c"]))
    raise core.HarnessError("unknown event type " + ty)


MALFORMED = {
    "nan": lambda n: np.array([float("nan")] + [0.0] * (n - 1)),
    "inf": lambda n: np.array([float("inf")] + [0.0] * (n - 1)),
    "neginf": lambda n: np.array([-float("inf")] + [0.0] * (n - 1)),
    "short": lambda n: np.zeros(max(n - 1, 0)),
    "long": lambda n: np.zeros(n + 1),
    "matrix": lambda n: np.zeros((n, 1)),
    "above": lambda n: None,   # resolved with bounds in resolve_action
    "below": lambda n: None,
    "index_high": lambda n: None,
    "index_neg": lambda n: -1,
    "index_float": lambda n: 0.5,
    "index_nan": lambda n: float("nan"),
    "index_array": lambda n: np.array([0, 1]),
    "none": lambda n: None,
    "string": lambda n: "buy",
}


class EnvHandle(object):
    def __init__(self, tag, spec, sink):
        self.tag = tag
        self.spec = spec
        self.sink = sink
        ts_type = spec.get("ts_type", "datetime")
        self.ts_type = ts_type
        ev_type, grid_type = {"mixed_grid_ts": ("datetime", "timestamp"), "mixed_events_ts": ("timestamp", "datetime")}.get(ts_type, (ts_type, ts_type))
        self.contracts = [world.build_contract(s) for s in spec["contracts"]]
        self.events = []
        self._ev_type = ev_type
        self.gen = 0
        self.loaded_late = set()        # ids of 'late' events handed to the transmitter so far (new_env ops)
        self.latency_us = spec.get("latency_us", 0)
        for es in spec["events"]:
            if es.get("via_frame") or es.get("late") or es.get("via_prices"):
                continue        # loaded from a table below / handed over later, before a new environment is built
            ev = build_event(es, self.contracts, ev_type)
            sink.idmap[id(ev)] = es["id"]
            self.events.append(ev)
        grid = [to_time(s, grid_type) for s in spec["grid"]]
        order = spec.get("grid_input") or list(range(len(grid)))
        folds = None
        if spec.get("folds"):
            folds = {k: [to_time(a, grid_type), to_time(b, grid_type)] for k, (a, b) in spec["folds"].items()}
        warm = timedelta(seconds=spec["warmup_s"]) if spec.get("warmup_s") is not None else None
        grid_list = [grid[i] for i in order]
        later = spec.get("grid_added_later")
        if later:
            # part of the decision grid is registered after construction, through the public add_timesteps()
            self.transmitter = Transmitter(grid_list[:later], folds, bool(spec.get("markov", False)), warm)
            self.transmitter.add_timesteps(grid_list[later:])
        else:
            self.transmitter = Transmitter(grid_list, folds, bool(spec.get("markov", False)), warm)
        if spec.get("grid_shared_with"):
            # the caller builds another transmitter from the very same list of timesteps and adds timesteps to *that* one
            other = Transmitter(grid_list)
            other.add_timesteps([to_time(s, grid_type) for s in spec["grid_shared_with"]])
        self.transmitter.add_events(self.events)
        self._load_frames(spec, ev_type)
        self._load_prices(spec)
        self.space, self.space_contracts = build_space(spec["space"], self.contracts)
        st = spec.get("state", {"type": "rec"})
        if st.get("crash_on"):
            sink.crash_on[tag] = set(st["crash_on"])
        if st["type"] == "rec":
            fcls = RecFeatureInherited if st.get("inherited") else RecFeature
            if st.get("twin_class"):
                # two different observer classes with the same module and qualified name live in the process (a class
                # redefined under the same name, a factory): the first one, instanced first, subscribes to less
                narrow = type("RecFeatureTwin", (_RecFeatureBase,), dict(_mk_callbacks("feature", ["EventNewDate"]), __module__=__name__))
                narrow(sink, tag, 1, name="narrow")
                # (a name of their own: the module-level RecFeature is now filed under this module too - it has to be, to be
                #  picklable - and must not be a third class of the same name, instanced by earlier runs of the process)
                fcls = type("RecFeatureTwin", (_RecFeatureBase,), dict(_mk_callbacks("feature", FEATURE_EVENT_CLASSES), __module__=__name__))
            scls = RecStateInherited if st.get("inherited") else RecState
            feats = [fcls(sink, tag, st.get("k", 3), name="roll", reads_account=bool(st.get("reads_account")))] if st.get("feature", True) else None
            if st.get("sparse_feature"):
                c0 = self.contracts[0]
                if spec["contracts"][0]["kind"] != "chain":
                    feats = (feats or []) + [RecFeatureSparse(sink, tag, contract=c0, name="sparse")]
            self.pw = None
            if st.get("pw_feature") and all(cs["kind"] != "chain" for cs in spec["contracts"]):
                # a feature from the library's own collection, built the documented way (no transformer argument) and
                # fitted by hand to its declared bounds
                lo, hi = st["pw_feature"]
                self.pw = GuardedPortfolioWeight(list(self.contracts), lo, hi, name="pw")
                feats = (feats or []) + [self.pw]
            self.state = scls(sink, tag, feats)
        elif st["type"] == "window":
            self.state = RecWindowState(sink, tag, st["n"], st["window"], st.get("stride"))
        else:
            raise core.HarnessError("unknown state type")
        self.fees = world.build_fees(spec.get("fees"))
        if spec.get("prior_env"):
            # another environment (other contracts, default latency) was built on this transmitter before
            from tradingenv.contracts import ETF
            TradingEnv(action_space=BoxPortfolio([ETF("ZZPRIOR")]), transmitter=self.transmitter)
        self._make_env()
        if getattr(self, "pw", None) is not None:
            self.pw.fit_transformer()
        self.episodes = []
        self.clones = []            # forked copies of the running environment (op 'fork'), dropped at the next reset
        self.clone_first = False
        self.gen_specs = [self.spec_of_generation()]

    def _make_env(self):
        spec = self.spec
        kw = {}
        if spec.get("reward") != "default":
            kw["reward"] = build_reward(spec.get("reward"))
        # ("default": the argument is left out, so the environment uses the constructor's own default object -
        #  one object shared by every environment of the process that is built that way)
        self.env = TradingEnv(
            action_space=self.space, state=self.state,
            transmitter=self.transmitter, initial_cash=spec.get("cash", 100.0), broker_fees=self.fees,
            latency=self.latency_us / 1e6, steps_delay=spec.get("delay", 0),
            episode_length=spec.get("episode_length"), sampling_span=spec.get("sampling_span"), **kw
        )
        self.sink.envs[self.tag] = self.env

    def spec_of_generation(self):
        """The environment's scenario as it stands for the environment object in use now: the latency it
        was built with and the events its transmitter holds (models are built from this, per episode)."""
        g = dict(self.spec)
        g["latency_us"] = self.latency_us
        g["events"] = [es for es in self.spec["events"] if not es.get("late") or es["id"] in self.loaded_late]
        return g

    def new_env(self, op):
        """A new TradingEnv object on the same Transmitter (same spaces, observers and fees), optionally after more
        events were handed to the transmitter and optionally with another latency - e.g. a latency sweep, or data
        appended between two backtests."""
        add = [es for es in self.spec["events"] if es.get("late") and es["id"] in set(op.get("add") or []) and es["id"] not in self.loaded_late]
        if add:
            evs = []
            for es in add:
                ev = build_event(es, self.contracts, self._ev_type)
                self.sink.idmap[id(ev)] = es["id"]
                evs.append(ev)
                self.loaded_late.add(es["id"])
            self.events.extend(evs)
            self.transmitter.add_events(evs)
        if op.get("latency_us") is not None:
            self.latency_us = op["latency_us"]
        self.gen += 1
        self._make_env()
        self.gen_specs.append(self.spec_of_generation())

    def _load_prices(self, spec):
        """Quotes flagged via_prices are handed over as one table of mid prices with Transmitter.add_prices
        (index = time, one column per contract, the environment-wide spread); the table keeps repeated
        timestamps (a quote and its revision) as repeated index labels.  epimodel.Delivery ranks the
        resulting events the way add_prices creates them: column by column, rows in order."""
        rows = [es for es in spec["events"] if es.get("via_prices")]
        if not rows:
            return
        cols = []
        for es in rows:
            if es["c"] not in cols:
                cols.append(es["c"])
        cols.sort(key=lambda c: (1, 0) if c == "rate" else (0, c))
        per = {c: {} for c in cols}
        for es in rows:
            per[es["c"]].setdefault(es["t"], []).append(es)
        times = sorted({es["t"] for es in rows}, key=core.parse_t)
        index, data = [], {c: [] for c in cols}
        for t in times:
            m = max(len(per[c].get(t, [])) for c in cols)
            for k in range(m):
                index.append(pd.Timestamp(core.parse_t(t)))
                for c in cols:
                    lst = per[c].get(t, [])
                    data[c].append(lst[k]["price"] if k < len(lst) else float("nan"))
        labels = [Rate(world.RATE_NAME) if c == "rate" else self.contracts[c] for c in cols]
        df = pd.DataFrame({lab: data[c] for lab, c in zip(labels, cols)}, index=pd.DatetimeIndex(index))
        n0 = len(self.transmitter.events)
        self.transmitter.add_prices(df, spread=spec["prices_spread"])
        made = self.transmitter.events[n0:]
        # creation order: column by column, rows in order
        expected = []
        for c in cols:
            for t in times:
                expected.extend(per[c].get(t, []))
        # (made may be shorter or longer if the loader is wrong; ids are attached to as many as there are)
        for ev, es in zip(made, expected):
            self.sink.idmap[id(ev)] = es["id"]
            self.events.append(ev)

    def _load_frames(self, spec, ev_type):
        """Rows flagged via_frame go through Transmitter.add_custom_events (index = time the row becomes
        known, plus a 'time' column the delivery must ignore), after the other events, class by class
        (epimodel.Delivery ranks insertion order the same way)."""
        rows = [es for es in spec["events"] if es.get("via_frame")]
        if not rows:
            return
        for cls in ("EvA", "EvB", "EvC"):
            part = [es for es in rows if es["cls"] == cls]
            if not part:
                continue
            df = pd.DataFrame({"tag": [es.get("tag", 0) for es in part], "time": [pd.Timestamp(core.parse_t(es["ref_t"])) for es in part]},
                              index=pd.DatetimeIndex([core.parse_t(es["t"]) for es in part]))
            n0 = len(self.transmitter.events)
            self.transmitter.add_custom_events(df, world.CUSTOM_EVENTS[cls])
            made = self.transmitter.events[n0:]
            if len(made) != len(part):
                raise core.HarnessError("add_custom_events created {} events from {} rows".format(len(made), len(part)))
            for ev, es in zip(made, part):
                self.sink.idmap[id(ev)] = es["id"]
                self.events.append(ev)

    # .. snapshots .........................................................
    def all_contracts(self):
        out = []
        for c, s in zip(self.contracts, self.spec["contracts"]):
            if s["kind"] == "chain":
                out.extend(c.contracts)
            else:
                out.append(c)
        return out

    def books(self):
        ex = self.env.exchange
        snap = {}
        for c in self.all_contracts():
            b = ex[c]           # public lookup (concrete contracts only: no clock involved)
            snap[c.symbol] = (b.bid_price, b.ask_price)
        rb = ex[Rate(world.RATE_NAME)]
        snap["__rate__"] = (rb.bid_price, rb.ask_price)
        return snap

    def holdings(self):
        hq = self.env.broker.holdings_quantity
        hm = self.env.broker.holdings_margins
        return ({getattr(c, "symbol", str(c)): float(q) for c, q in hq.items() if q != 0 or isinstance(c, Cash)},
                {getattr(c, "symbol", str(c)): float(q) for c, q in hm.items() if q != 0})

    def nlv(self):
        try:
            return float(self.env.broker.net_liquidation_value(raise_if_broke=False))
        except Exception as e:
            return "ERR:" + core.exc_name(e)

    def chains(self):
        """What each futures chain of the action space resolves to right now."""
        out = {}
        for c, s in zip(self.contracts, self.spec["contracts"]):
            if s["kind"] != "chain":
                continue
            info = {}
            try:
                info["lead"] = c.lead_contract().symbol
            except Exception as e:
                info["lead"] = "ERR:" + core.exc_name(e)
            try:
                info["lead_now"] = c.lead_contract(self.env.now()).symbol
            except Exception as e:
                info["lead_now"] = "ERR:" + core.exc_name(e)
            try:
                b = self.env.exchange[c]
                info["book"] = (b.bid_price, b.ask_price)
            except Exception as e:
                info["book"] = "ERR:" + core.exc_name(e)
            out[s["name"]] = info
        return out

    def histories(self):
        """Sizes and latest keys of the histories the state and its features keep."""
        def latest(h):
            keys = [k for k in h if k is not None]
            return max(keys) if keys else None
        st = self.state
        out = {"state": [len(st.history), latest(st.history)]}
        for f in (st.features or []):
            out[f.name] = [len(f.history), latest(f.history)]
        return out

    def api_view(self, env, obs, reward, done, exc):
        """What a caller can see of an environment right after a step (used to compare a forked copy with the original)."""
        br = env.broker
        hq = {getattr(c, "symbol", str(c)): float(q) for c, q in br.holdings_quantity.items() if q != 0 or isinstance(c, Cash)}
        try:
            nlv = float(br.net_liquidation_value(raise_if_broke=False))
        except Exception as e:
            nlv = "ERR:" + core.exc_name(e)
        tr = br.track_record
        return canon({"obs": canon(obs) if not isinstance(obs, IState) else "state",
                      "reward": float(reward) if reward is not None else None, "done": bool(done) if done is not None else None,
                      "exc": exc, "hold": hq, "nlv": nlv, "n_rec": len(tr), "now": env.now(),
                      "last": rebal_record(tr[len(tr) - 1]) if len(tr) else None})

    def nlv_default(self):
        """Valuation with the raising default: ('value', x) or ('raised', type)."""
        try:
            return ["value", float(self.env.broker.net_liquidation_value())]
        except Exception as e:
            return ["raised", core.exc_name(e)]

    def resolve_action(self, a, env=None):
        n = len(self.space_contracts)
        env = env or self.env
        if isinstance(a, dict):
            if "bad" in a:
                kind = a["bad"]
                sp = self.spec["space"]
                if kind == "above":
                    v = np.zeros(n)
                    v[a.get("pos", 0) % n] = np.nextafter(sp.get("high", 1.0), np.inf) if a.get("ulp") else sp.get("high", 1.0) + 0.5
                    return v
                if kind == "below":
                    v = np.zeros(n)
                    v[a.get("pos", 0) % n] = np.nextafter(sp.get("low", -1.0), -np.inf) if a.get("ulp") else sp.get("low", -1.0) - 0.5
                    return v
                if kind == "index_high":
                    return len(sp["allocations"]) + a.get("by", 0)
                if kind in ("nan", "inf", "neginf"):
                    v = np.zeros(n)
                    v[a.get("pos", 0) % n] = {"nan": float("nan"), "inf": float("inf"), "neginf": -float("inf")}[kind]
                    return v
                return MALFORMED[kind](n)
            if "as" in a:
                v = a["v"]
                if a["as"] == "list":
                    return list(v)
                if a["as"] == "template" and self.spec["space"]["type"] == "box":
                    # the caller starts from the space's flat template and fills it in place
                    w = env.action_space.null_action()
                    w[...] = np.array(v, dtype=np.float64)
                    return w
                if a["as"] == "f32":
                    return np.array(v, dtype=np.float32)
                if a["as"] == "npint":
                    return np.int64(v)
                return np.array(v, dtype=np.float64)
        if isinstance(a, list):
            return np.array(a, dtype=np.float64)
        return a


def _raise_site(tb):
    frames = traceback.extract_tb(tb)
    site = None
    chain = []
    for f in frames:
        if "/tradingenv/" in f.filename:
            site = "{}:{}".format(os.path.basename(f.filename), f.name)
            chain.append(site)
    return site, chain


def rebal_record(r):
    """Plain-data rendering of a Rebalancing for the log."""
    def ctx(c):
        if c is Ellipsis or c is None:
            return None
        return {"nlv": float(c.nlv),
                "nr": {getattr(k, "symbol", str(k)): float(v) for k, v in c.nr_contracts.items()},
                "w": {getattr(k, "symbol", str(k)): float(v) for k, v in c.weights.items()},
                "margins": {getattr(k, "symbol", str(k)): float(v) for k, v in c.margins.items()}}
    trades = []
    if isinstance(r.trades, list):
        for t in r.trades:
            trades.append({"sym": t.contract.symbol, "q": float(t.quantity), "bid": float(t.bid_price), "ask": float(t.ask_price),
                           "px": float(t.acq_price), "comm": float(t.cost_of_commissions), "spread": float(t.cost_of_spread),
                           "time": t.time})
    return {"time": r.time, "alloc": {getattr(k, "symbol", str(k)): float(v) for k, v in r.allocation.items()},
            "measure": type(r.allocation).__name__, "interest": (float(r.profit_on_idle_cash) if not (r.profit_on_idle_cash is Ellipsis or r.profit_on_idle_cash is None) else None),
            "pre": ctx(r.context_pre), "post": ctx(r.context_post), "trades": trades}


class EpiSim(object):
    def __init__(self, scenario):
        self.sc = scenario
        self.sink = Sink()
        self.handles = []
        self.api = []           # records of reset/step/fault calls, in order
        self.faults = {}
        self.stats = {"ops": 0, "steps": 0, "resets": 0, "episodes": 0}

    def fault(self, name, n=1):
        self.faults[name] = self.faults.get(name, 0) + n

    def build(self):
        for tag, spec in enumerate(self.sc["envs"]):
            self.handles.append(EnvHandle(tag, spec, self.sink))
            if spec.get("grid_added_later"):
                self.fault("timesteps_added_after_construction")

    def wrap_rebalance(self, h):
        broker = h.env.broker
        orig = broker.rebalance
        sink = self.sink

        def wrapped(rebalancing, _orig=orig, _h=h):
            rec = {"seq": sink.next_seq(), "kind": "EXEC", "env": _h.tag, "time": rebalancing.time,
                   "books": _h.books(), "env_now": _h.env.now(), "clock": AbstractContract.now,
                   "hold_before": _h.holdings()[0], "n_rec_before": len(broker.track_record), "chains": _h.chains()}
            sink.records.append(rec)
            try:
                return _orig(rebalancing)
            finally:
                rec["hold_after"] = _h.holdings()[0]
                rec["n_rec_after"] = len(broker.track_record)
                rec["rebalancing"] = rebal_record(rebalancing)
        broker.rebalance = wrapped

    def do_reset(self, op, call=None, reraise=False):
        """call: the callable to invoke instead of h.env.reset (backtest driver: the environment's own
        bound reset, reached through a wrapper installed on the instance); reraise: hand the exception
        back to the caller after recording it."""
        h = self.handles[op.get("env", 0)]
        h.clones = []
        if op.get("np_seed") is not None:
            np.random.seed(op["np_seed"] % (2 ** 32))
            random.seed(op["np_seed"])
        rec = {"seq": self.sink.next_seq(), "kind": "reset", "env": h.tag, "fold": op.get("fold"), "exc": None,
               "episode_length_arg": op.get("episode_length"), "env_gen": h.gen}
        self.api.append(rec)
        self.sink.records.append(rec)
        self.stats["resets"] += 1
        try:
            kwargs = {}
            if op.get("fold") is not None:
                kwargs["fold"] = op["fold"]
            if op.get("episode_length") is not None:
                kwargs["episode_length"] = op["episode_length"]
            obs = (call or h.env.reset)(**kwargs)
        except Exception as e:
            site, chain = _raise_site(e.__traceback__)
            rec.update({"exc": core.exc_name(e), "msg": str(e)[:300], "site": site})
            rec["end_seq"] = self.sink.next_seq()
            h.episodes.append({"reset": rec, "steps": [], "failed": True, "ended": True, "gen": h.gen})
            if reraise:
                raise
            return
        self.wrap_rebalance(h)
        hq, hm = h.holdings()
        rec.update({"obs": canon(obs) if not isinstance(obs, IState) else "state", "now": h.env.now(), "clock": AbstractContract.now,
                    "done": bool(getattr(h.env, "_done", False)), "books": h.books(), "hold": hq, "nlv": h.nlv(), "hist": h.histories(),
                    "end_seq": self.sink.next_seq()})
        h.episodes.append({"reset": rec, "steps": [], "failed": False, "ended": bool(rec["done"]), "gen": h.gen})
        self.stats["episodes"] += 1
        return obs

    def do_step(self, op, call=None, reraise=False):
        h = self.handles[op.get("env", 0)]
        if h.env.broker is None:
            return      # never reset: nothing to step (script shrunk)
        ep = h.episodes[-1] if h.episodes else None
        if ep is not None and ep["failed"]:
            return      # reset() raised: there is no episode to step (the environment is half reset)
        if ep is not None and ep.get("gen", 0) != h.gen:
            return      # a new environment object that has not been reset yet
        action = h.resolve_action(op["action"])
        n_before = len(h.env.broker.track_record)
        hold_before = h.holdings()[0]
        rec = {"seq": self.sink.next_seq(), "kind": "step", "env": h.tag, "action": canon(op["action"]), "exc": None,
               "k": len(ep["steps"]) if ep else None, "n_rec_before": n_before, "hold_before": hold_before,
               "nlv_before": h.nlv(), "done_before": bool(ep["ended"]) if ep is not None else False}
        self.api.append(rec)
        self.sink.records.append(rec)
        self.stats["steps"] += 1
        raised = None
        clone_views = []
        if h.clones and h.clone_first:
            clone_views = [self.clone_step(h, c, op["action"]) for c in h.clones]
        try:
            obs, reward, done, info = (call or h.env.step)(action)
        except Exception as e:
            site, chain = _raise_site(e.__traceback__)
            rec.update({"exc": core.exc_name(e), "msg": str(e)[:300], "site": site, "chain": chain})
            obs = reward = done = info = None
            raised = e
        hq, hm = h.holdings()
        rec.update({"obs": canon(obs) if not isinstance(obs, IState) else "state",
                    "reward": (float(reward) if reward is not None else None),
                    "done": (bool(done) if done is not None else None),
                    "info_keys": sorted(info.keys()) if isinstance(info, dict) else None,
                    "now": h.env.now(), "clock": AbstractContract.now, "hold": hq, "margins": hm, "nlv": h.nlv(),
                    "n_rec": len(h.env.broker.track_record), "books": h.books(), "env_done": bool(getattr(h.env, "_done", False)),
                    "nlv_default": h.nlv_default(), "chains": h.chains(), "hist": h.histories(),
                    "end_seq": self.sink.next_seq()})
        if isinstance(info, dict) and "_rebalancing" in info:
            rec["info_rebalancing_time"] = info["_rebalancing"].time
        if h.clones:
            if not h.clone_first:
                clone_views = [self.clone_step(h, c, op["action"]) for c in h.clones]
            rec["clones"] = clone_views
            rec["self_view"] = h.api_view(h.env, obs, reward, done, rec["exc"])
        if ep is not None:
            ep["steps"].append(rec)
            if rec.get("done") or rec.get("exc") == "EndOfEpisodeError":
                ep["ended"] = True
        if raised is not None and reraise:
            raise raised
        return obs, reward, done, info

    def clone_step(self, h, clone, action_spec):
        """The same step on a forked copy of the environment; returns what a caller sees of the copy afterwards."""
        obs = reward = done = None
        exc = None
        try:
            obs, reward, done, _info = clone.step(h.resolve_action(action_spec, env=clone))
        except Exception as e:
            exc = core.exc_name(e)
        return h.api_view(clone, obs, reward, done, exc)

    def do_fork(self, op):
        """Checkpoint of a running episode: the environment object is copied (copy.deepcopy, or a pickle round trip)
        and from now on every step of the script is made on both objects - the copy first or second.  The harness's
        own instance-level wrapper of Broker.rebalance is taken off for the copy and put back afterwards."""
        import pickle
        h = self.handles[op.get("env", 0)]
        if h.env.broker is None or not h.episodes or h.episodes[-1]["failed"] or h.episodes[-1].get("gen", 0) != h.gen:
            return
        broker = h.env.broker
        wrapped = "rebalance" in vars(broker)
        if wrapped:
            del broker.rebalance
        rec = {"seq": self.sink.next_seq(), "kind": "fork", "env": h.tag, "how": op.get("how", "deepcopy"), "exc": None}
        saved = AbstractContract.now
        try:
            if op.get("how") == "pickle":
                clone = pickle.loads(pickle.dumps(h.env))
            else:
                clone = copy.deepcopy(h.env)
            h.clones.append(clone)
            h.clone_first = bool(op.get("clone_first"))
            self.fault("environment_forked_by_" + op.get("how", "deepcopy"))
        except Exception as e:
            rec["exc"] = core.exc_name(e)
            rec["msg"] = str(e)[:200]
        finally:
            AbstractContract.now = saved
            if wrapped:
                self.wrap_rebalance(h)
        self.sink.records.append(rec)

    def do_backtest(self, reset_op, step_ops):
        """The same reset + step calls, made by the library's own episode driver TradingEnv.backtest with a
        scripted policy.  reset and step are wrapped on the instance so that every call is recorded exactly
        as in the plain driver; steps left over once the driver returns (or aborts) are made directly."""
        from tradingenv.policy import AbstractPolicy
        h = self.handles[reset_op.get("env", 0)]
        queue = list(step_ops)
        sim = self
        orig_reset, orig_step = h.env.reset, h.env.step

        class _OutOfScript(Exception):
            pass

        class Scripted(AbstractPolicy):
            cur = None

            def act(self, state):
                if not queue:
                    raise _OutOfScript()
                self.cur = queue.pop(0)
                return self.cur

        pol = Scripted()

        def reset_w(fold=None, episode_length=None):
            def call(**kw):
                # the driver's own arguments are what reaches the environment
                a = {}
                if fold is not None:
                    a["fold"] = fold
                if episode_length is not None:
                    a["episode_length"] = episode_length
                return orig_reset(**a)
            return sim.do_reset(reset_op, call=call, reraise=True)

        def step_w(received):
            # the record shows the action the policy returned for this step; the environment gets whatever
            # the driver actually passes on (the same object unless the driver is wrong)
            def call(_scripted):
                if isinstance(received, dict) and "action" in received:
                    return orig_step(h.resolve_action(received["action"]))
                return orig_step(received)
            return sim.do_step(pol.cur, call=call, reraise=True)

        h.env.reset, h.env.step = reset_w, step_w
        self.fault("episode_driven_by_backtest")
        try:
            kwargs = {}
            if reset_op.get("fold") is not None:
                kwargs["fold"] = reset_op["fold"]
            if reset_op.get("episode_length") is not None:
                kwargs["episode_length"] = reset_op["episode_length"]
            h.env.backtest(policy=pol, **kwargs)
        except _OutOfScript:
            pass        # the script abandons the episode here
        except Exception as e:
            # already recorded by the reset / step record it came from; anything else is the driver's own failure
            last = self.api[-1] if self.api else None
            if last is None or last.get("exc") != core.exc_name(e):
                self.sink.records.append({"seq": self.sink.next_seq(), "kind": "driver_exc", "env": h.tag, "exc": core.exc_name(e),
                                          "msg": str(e)[:300], "site": _raise_site(e.__traceback__)[0]})
        finally:
            del h.env.reset
            del h.env.step
        for op in queue:
            self.do_step(op)

    def run(self):
        self.build()
        script = self.sc["script"]
        consumed = set()
        for k, op in enumerate(script):
            if k in consumed:
                continue
            self.stats["ops"] += 1
            name = op["op"]
            if name == "reset" and self.sc.get("driver") == "backtest":
                # the episode's steps: the step ops of this environment that follow, up to its next reset,
                # provided nothing else is scheduled in between (otherwise the plain driver is used)
                j = k + 1
                steps = []
                while j < len(script) and script[j]["op"] == "step" and script[j].get("env", 0) == op.get("env", 0):
                    steps.append(script[j])
                    j += 1
                if j == len(script) or script[j]["op"] == "reset":
                    consumed.update(range(k + 1, j))
                    self.stats["ops"] += len(steps)
                    self.do_backtest(op, steps)
                    continue
            if name == "reset":
                self.do_reset(op)
            elif name == "step":
                self.do_step(op)
            elif name == "clock":
                AbstractContract.now = core.parse_t(op["t"])
                self.fault("foreign_clock_write")
                self.sink.records.append({"seq": self.sink.next_seq(), "kind": "clock", "t": core.parse_t(op["t"])})
            elif name == "fork":
                self.do_fork(op)
            elif name == "peek":
                # a monitoring caller reads the public accessors of the running episode between two steps: the track
                # record's series and tables, weights, the exchange's repr.  Reading is not an operation: nothing may change
                h = self.handles[op.get("env", 0)]
                tr = h.env.broker.track_record
                for read in (tr.net_liquidation_value, tr.transaction_costs, tr.weights_target,
                             lambda: tr.net_liquidation_value(before_rebalancing=False), lambda: repr(h.env.exchange), lambda: len(tr)):
                    try:
                        read()
                    except Exception:
                        pass
                self.fault("accessors_read_between_steps")
            elif name == "notify_quote":
                # a live quote pushed into the environment between two steps (TradingEnv.notify), stamped with the very
                # same timestamp as the last quote the exchange has seen
                h = self.handles[op.get("env", 0)]
                t = h.env.exchange.last_update
                c = event_contract(None, h.contracts, op["c"])
                older = False
                if op.get("older"):
                    # ... or stamped before the exchange's latest quote (of another contract) but after everything this
                    # contract's book and the account have seen: an out-of-order feed
                    lower = h.env.exchange[c].time
                    if len(h.env.broker.track_record) and lower is not None:
                        lower = max(lower, h.env.broker.track_record[-1].time)
                    if lower is not None and lower < t:
                        t = lower + (t - lower) / 2
                        older = True
                ev = EventNBBO(t, c, op["bid"], op["ask"])
                self.sink.idmap[id(ev)] = "notify"
                rec = {"seq": self.sink.next_seq(), "kind": "notify", "env": h.tag, "sym": c.symbol, "bid": op["bid"], "ask": op["ask"], "time": t, "exc": None}
                self.sink.records.append(rec)
                try:
                    h.env.notify(ev)
                except Exception as e:
                    rec["exc"] = core.exc_name(e)
                rec["end_seq"] = self.sink.next_seq()
                self.fault("quote_pushed_between_steps_with_an_older_timestamp" if older else "quote_pushed_between_steps_with_the_last_timestamp")
            elif name == "bad_env":
                # error path: somebody tries to build another environment on this transmitter with a latency that is
                # not smaller than the smallest gap between timesteps; the constructor must refuse it and leave the
                # transmitter (and the environment in use) as they were
                h = self.handles[op.get("env", 0)]
                grid = sorted(set(core.parse_t(g) for g in h.spec["grid"]))
                mingap = min(((b - a).total_seconds() for a, b in zip(grid, grid[1:])), default=1.0)
                rec = {"seq": self.sink.next_seq(), "kind": "bad_env", "env": h.tag, "exc": None}
                try:
                    TradingEnv(action_space=h.space, transmitter=h.transmitter, latency=mingap * op.get("factor", 1.0))
                except Exception as e:
                    rec["exc"] = core.exc_name(e)
                self.sink.records.append(rec)
                self.fault("environment_construction_refused")
            elif name == "new_env":
                h = self.handles[op.get("env", 0)]
                h.new_env(op)
                self.fault("new_environment_on_same_transmitter")
                if op.get("add"):
                    self.fault("events_added_before_new_environment")
            elif name == "arm":
                # fault: the n-th observer callback of this environment from now on raises (None disarms)
                self.sink.bombs[op.get("env", 0)] = op.get("n")
                if op.get("n") is not None:
                    self.fault("observer_crash_armed")
            elif name == "late_add":
                # somebody hands the transmitter one more (unobserved, out-of-range) event after the environment was built
                h = self.handles[op.get("env", 0)]
                last = core.parse_t(h.spec["grid"][-1])
                h.transmitter.add_events([world.EvLate(to_time(core.iso(last + timedelta(hours=1)), h.spec.get("ts_type", "datetime")), 0)])
                self.fault("events_added_after_construction")
            elif name == "draw":
                np.random.random(op.get("n", 1))
                random.random()
                self.fault("foreign_prng_draw")
            else:
                raise core.HarnessError("unknown op " + name)
        return self

    def log_for_digest(self, env=None):
        out = []
        for r in self.sink.records:
            if env is not None and r.get("env") != env:
                continue
            out.append(canon({k: v for k, v in r.items()}))
        return out

    def track_record(self, tag=0):
        tr = self.handles[tag].env.broker.track_record
        return [rebal_record(tr[i]) for i in range(len(tr))]


def run_scenario(scenario):
    clock0 = core.parse_t(scenario["clock0"]) if scenario.get("clock0") else None
    with core.sim_context(clock0=clock0, prng_seed=scenario.get("prng", 0)):
        sim = EpiSim(scenario)
        sim.run()
        return sim
