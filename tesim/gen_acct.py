"""Swarm generator for account-level scenarios (C01, C03, C05, C12, C13).

The generator is the only place that draws random numbers.  Every run first
draws a configuration of the generator itself (contract mix, spread regime,
fees, observation mode, workload mix, fault rates), then a mostly short op
script with hand-written motifs spliced at random positions."""
import math

NAN = float("nan")
MULTS = [1, 1, 0.1, 2, 5, 8, 50, 1000]
MREQS = [0.004, 0.05, 0.1, 0.3, 0.5, 1.0]
WEIGHTS = [0, 0, 0.1, 0.25, 0.5, -0.2, -0.5, 1.2, 0.05, -1.0, 0.75]
SPREADS = [0.0005, 0.002, 0.02, 0.05]
THRESHOLDS = [0, 1e-3, 0.02, 0.05, 0.125, 0.5]


def wchoice(rng, table):
    tot = sum(w for _, w in table)
    x = rng.random() * tot
    for v, w in table:
        x -= w
        if x <= 0:
            return v
    return table[-1][0]


def gen_contract(rng, i, profile):
    r = rng.random()
    p_margined = profile.get("p_margined", 0.5)
    if r < 0.12:
        return {"name": "ETF{}".format(i), "kind": rng.choice(["ETF", "Stock", "Index"])}
    if r < 0.24:
        cls = rng.choice(["ES", "NK", "ZN", "ZQ", "VX"])
        return {"name": "{}{}".format(cls, i), "kind": "future", "cls": cls, "year": 2030 + i, "month": 3 * rng.randint(1, 4)}
    mult = rng.choice(MULTS)
    if rng.random() < p_margined:
        return {"name": "M{}".format(i), "kind": "margined", "mult": mult, "mreq": rng.choice(MREQS)}
    return {"name": "S{}".format(i), "kind": "spot", "mult": mult}


def spec_mult(spec):
    from tesim.world import contract_params
    return contract_params(spec)[0]


class AcctGen(object):
    def __init__(self, rng, profile):
        self.rng = rng
        self.pf = profile
        self.script = []
        self.mids = {}
        self.spread_regime = None
        self.p_sizes = profile.get("p_sizes", 0.0)

    def new_quote(self, i, big=False, exact=False):
        rng = self.rng
        if exact:
            mid = float(rng.choice([1, 2, 4, 16, 64, 128, 0.5]))
            bid = ask = mid
            if self.spread_regime == "exact_spread":
                ask = mid * 1.0 + mid / 64.0
            self.mids[i] = mid
            return {"op": "quote", "c": i, "bid": bid, "ask": ask}
        if i not in self.mids:
            mid = rng.choice([1, 2, 10, 64, 100, 2500, 37.5]) * (1 + rng.uniform(-0.3, 0.3))
        else:
            move = rng.uniform(-0.3, 0.3) if big else rng.uniform(-0.05, 0.05)
            mid = self.mids[i] * (1 + move)
        if self.spread_regime == "zero":
            sp = 0.0
        elif self.spread_regime == "wide":
            sp = rng.choice(SPREADS)
        else:
            sp = rng.choice([0, 0] + SPREADS)
        self.mids[i] = mid
        q = {"op": "quote", "c": i, "bid": mid * (1 - sp / 2), "ask": mid * (1 + sp / 2)}
        if self.p_sizes and rng.random() < self.p_sizes:
            # the quote carries finite displayed sizes (a legal, rarely used field: execution is at the quote whatever the size)
            q["bsz"], q["asz"] = rng.choice([0.0, 1.0, 10.0, 150.0]), rng.choice([0.0, 1.0, 10.0, 150.0])
        return q

    def trade(self, i):
        rng = self.rng
        kind = rng.choice(["open", "add", "reduce", "close", "flip", "unit"])
        if kind in ("open", "unit"):
            return {"op": "trade", "c": i, "mode": "unit", "x": rng.choice([-1, 1]) * rng.choice([1, 2, 0.5, 4])}
        if kind == "add":
            return {"op": "trade", "c": i, "mode": "rel", "x": rng.choice([1, 0.5, 0.25])}
        if kind == "reduce":
            return {"op": "trade", "c": i, "mode": "rel", "x": -rng.choice([0.25, 0.5])}
        if kind == "close":
            return {"op": "trade", "c": i, "mode": "rel", "x": -1}
        return {"op": "trade", "c": i, "mode": "rel", "x": -rng.choice([1.5, 2, 3])}

    def rebal(self, n, specs, deposit, exact=False):
        rng = self.rng
        pf = self.pf
        measure = "weight" if rng.random() < pf.get("p_weight", 0.8) else "nr-contracts"
        targets = {}
        for i in range(n):
            if rng.random() < 0.7:
                if exact:
                    targets[str(i)] = rng.choice([0, 0.125, 0.25, 0.0625, -0.25, 0.5, 0.1875])
                elif measure == "weight":
                    targets[str(i)] = rng.choice(WEIGHTS) if rng.random() < 0.8 else round(rng.uniform(-1, 1.5), 4)
                else:
                    mid = self.mids.get(i, 100.0)
                    unit = 0.05 * deposit / (mid * spec_mult(specs[i]))
                    x = unit * rng.choice([0, 1, 2, -1, 0.5, 3, -2])
                    if rng.random() < 0.5:
                        x = float(int(x)) if abs(x) >= 1 else x
                    targets[str(i)] = x
        op = {"op": "rebal", "measure": measure, "targets": targets, "dt": rng.choice([1, 60, 3600, 86400])}
        if rng.random() < pf.get("p_threshold", 0.0):
            op["margin"] = rng.choice([0.125, 0.0625, 0.25]) if exact else rng.choice(THRESHOLDS)
        if rng.random() < pf.get("p_whole_lots", 0.0):
            op["fractional"] = False
        if rng.random() < 0.2:
            op["order"] = "rev"
        if rng.random() < 0.1:
            op["with_cash"] = rng.choice([0.1, 1.0, -0.5])
        if rng.random() < pf.get("p_again", 0.0):
            op["again"] = True
        if rng.random() < pf.get("p_preview", 0.12) and not exact and n >= 1:
            # the request object is first used for a preview ("what would the trades be?"), the market may move, and
            # the same object is then executed: the trades must be those of the account at execution time
            op["preview"] = True
            if rng.random() < 0.7:
                j = rng.randrange(n)
                q = self.new_quote(j)
                op["preview_quote"] = q
        if rng.random() < pf.get("p_relative", 0.08) and not exact:
            # the allocation is a *change* from the current one (Rebalancing(absolute=False)); small steps
            op["absolute"] = False
            op["targets"] = {k: (v * 0.2 if measure == "weight" else v * 0.3) for k, v in targets.items()}
            op.pop("again", None)
        return op


def generate(rng, profile):
    pf = profile
    g = AcctGen(rng, pf)
    exact = rng.random() < pf.get("p_exact", 0.0)
    n = rng.randint(1, 5) if not pf.get("min_contracts") else rng.randint(pf["min_contracts"], 5)
    if exact:
        specs = []
        for i in range(n):
            mult = rng.choice([1, 2, 8, 0.5])
            if rng.random() < 0.4:
                specs.append({"name": "M{}".format(i), "kind": "margined", "mult": mult, "mreq": rng.choice([0.5, 0.25, 0.125, 1.0])})
            else:
                specs.append({"name": "S{}".format(i), "kind": "spot", "mult": mult})
    else:
        specs = [gen_contract(rng, i, pf) for i in range(n)]
    frictionless = rng.random() < pf.get("p_frictionless", 0.0) or exact
    if frictionless:
        fees = {"fixed": 0.0, "prop": 0.0}
        g.spread_regime = "zero"
    else:
        fees = {"fixed": rng.choice([0, 0, 0.5, 3]), "prop": rng.choice([0, 0, 1e-4, 2e-3])}
        g.spread_regime = rng.choice(["zero", "wide", "mixed", "mixed"])
    deposit = float(2 ** 20) if exact else rng.choice([1000.0, 1e5, 1e6])
    sc = {
        "kind": "acct", "contracts": specs, "fees": fees, "deposit": deposit,
        "t0": "2019-01-01T00:00:00", "observe": "every" if rng.random() < pf.get("p_observe_every", 0.7) else "value",
        "oracles": list(pf["oracles"]), "frictionless": bool(frictionless), "prng": rng.randrange(2 ** 31),
    }
    script = []
    unquoted = set()
    for i in range(n):
        if rng.random() < pf.get("p_unquoted", 0.05):
            unquoted.add(i)
        else:
            script.append(g.new_quote(i, exact=exact))
    if rng.random() < pf.get("p_rate", 0.2) and not frictionless:
        script.append({"op": "rate", "r": rng.choice([0.01, 0.05, -0.01, 0.2])})
    from tesim import core
    if core.tier() == "thorough":
        # thorough tier: a fatter tail of long histories
        length = rng.randint(3, 25) if rng.random() < 0.85 else rng.randint(26, 400)
    else:
        length = rng.randint(3, 25) if rng.random() < 0.95 else rng.randint(26, 200)
    mix = dict(pf["mix"])
    # swarm: randomly silence some op kinds for this run
    for k in list(mix):
        if k not in pf.get("always", ()) and rng.random() < 0.15:
            mix[k] = 0
    if sum(mix.values()) == 0:
        mix = dict(pf["mix"])
    table = list(mix.items())
    fault_rate = rng.choice(pf.get("fault_rates", [0.0]))
    for _ in range(length):
        if fault_rate and rng.random() < fault_rate:
            i = rng.randrange(n)
            kind = rng.choice(["bid", "ask", "both", "disc", "bid", "ask"])
            if kind == "disc":
                script.append({"op": "disc", "c": i})
            else:
                mid = g.mids.get(i, 100.0)
                script.append({"op": "quote", "c": i, "bid": NAN if kind in ("bid", "both") else mid,
                               "ask": NAN if kind in ("ask", "both") else mid, "fault": kind})
            continue
        op = wchoice(rng, table)
        if op == "quote":
            script.append(g.new_quote(rng.randrange(n), big=rng.random() < 0.1, exact=exact))
        elif op == "trade":
            script.append(g.trade(rng.randrange(n)))
        elif op == "rebal":
            script.append(g.rebal(n, specs, deposit, exact=exact))
        elif op == "mark":
            script.append({"op": "mark", "c": None if rng.random() < 0.5 else rng.randrange(n)})
        elif op == "value":
            script.append({"op": "value", "wf": True} if rng.random() < 0.4 else {"op": "value"})
        elif op == "advance":
            script.append({"op": "advance", "dt": rng.choice([1, 3600, 86400, 30 * 86400])})
            if rng.random() < 0.5:
                script.append({"op": "accrue"})
    # motifs, spliced at random positions
    for motif in pf.get("motifs", []):
        if rng.random() < motif[0]:
            ops = motif[1](rng, g, n, specs, deposit)
            pos = rng.randint(min(len(script), n), len(script))
            script[pos:pos] = ops
    sc["script"] = script
    return sc


# ---- motifs -------------------------------------------------------------------
def _pick(rng, specs, kind):
    idx = [i for i, s in enumerate(specs) if (s["kind"] in ("margined", "future")) == (kind == "margined")]
    return rng.choice(idx) if idx else None


def motif_add_margined_under_spread(rng, g, n, specs, deposit):
    i = _pick(rng, specs, "margined")
    if i is None:
        return []
    mid = g.mids.get(i, 100.0)
    return [{"op": "quote", "c": i, "bid": mid * 0.99, "ask": mid * 1.01},
            {"op": "trade", "c": i, "mode": "unit", "x": rng.choice([1, -1])},
            {"op": "trade", "c": i, "mode": "rel", "x": rng.choice([1, 0.5])},
            {"op": "value"}]


def motif_near_close(rng, g, n, specs, deposit):
    """Open, then close up to a residual below the broker's rounding threshold: the position is rounded to
    zero and so must be everything that hangs on it (margin)."""
    i = _pick(rng, specs, "margined")
    if i is None:
        i = rng.randrange(n)
    return [{"op": "trade", "c": i, "mode": "unit", "x": rng.choice([1, 2, -1])},
            {"op": "trade", "c": i, "mode": "near_close", "x": rng.choice([4e-8, -4e-8, 9e-8, -2e-8])},
            {"op": "mark", "c": None}, {"op": "value"}]


def motif_one_sided_liquidation_quote(rng, g, n, specs, deposit):
    """A held margined contract is then quoted on one side only - the side its liquidation needs (bid for a
    long, ask for a short) - at a moved price: the position can still be valued and must be marked."""
    i = _pick(rng, specs, "margined")
    if i is None:
        return []
    mid = g.mids.get(i, 100.0)
    side = rng.choice([1, -1])
    new = mid * (1 + rng.choice([-0.03, 0.02, 0.05]))
    g.mids[i] = new
    q = {"op": "quote", "c": i, "bid": new if side > 0 else NAN, "ask": NAN if side > 0 else new, "fault": "other_side_missing"}
    return [{"op": "quote", "c": i, "bid": mid, "ask": mid},
            {"op": "trade", "c": i, "mode": "unit", "x": side * rng.choice([1, 2])},
            q, {"op": "mark", "c": None} if rng.random() < 0.5 else {"op": "value"}, {"op": "value"},
            {"op": "quote", "c": i, "bid": new, "ask": new}]


def motif_zero_liquidation_side(rng, g, n, specs, deposit):
    """The liquidation side of a held contract is quoted at exactly zero - a long with a bid of 0 and a positive
    ask, or a short in something that became worthless (both sides 0) - the account is valued or marked there,
    possibly traded, and then the quote comes back: zero is a price like any other."""
    i = _pick(rng, specs, rng.choice(["margined", "margined", "spot"]))
    if i is None:
        i = rng.randrange(n)
    mid = g.mids.get(i, 100.0)
    side = rng.choice([1, 1, -1])
    zero = {"op": "quote", "c": i, "bid": 0.0, "ask": mid * rng.choice([0.5, 1.0]) if side > 0 else 0.0}
    new = mid * rng.choice([0.25, 0.5, 1.0, 1.5])
    g.mids[i] = new
    ops = [{"op": "quote", "c": i, "bid": mid, "ask": mid},
           {"op": "trade", "c": i, "mode": "unit", "x": side * rng.choice([1, 2])},
           zero, {"op": "mark", "c": rng.choice([None, i])} if rng.random() < 0.5 else {"op": "value"}, {"op": "value"}]
    if rng.random() < 0.3:
        ops += [{"op": "trade", "c": i, "mode": "unit", "x": side}, {"op": "value"}]
    ops += [{"op": "quote", "c": i, "bid": new, "ask": new}, {"op": "value"}, {"op": "mark", "c": None}, {"op": "value"}]
    return ops


def motif_flip(rng, g, n, specs, deposit):
    i = rng.randrange(n)
    return [{"op": "trade", "c": i, "mode": "unit", "x": rng.choice([1, -1])},
            {"op": "trade", "c": i, "mode": "rel", "x": -2}, {"op": "value"}]


def motif_spot_multiplier(rng, g, n, specs, deposit):
    idx = [i for i, s in enumerate(specs) if s["kind"] == "spot" and s.get("mult", 1) != 1]
    if not idx:
        return []
    i = rng.choice(idx)
    return [{"op": "trade", "c": i, "mode": "unit", "x": rng.choice([1, 2, -1])}, {"op": "value"}]


def motif_margin_call(rng, g, n, specs, deposit):
    i = _pick(rng, specs, "margined")
    if i is None:
        return []
    mid = g.mids.get(i, 100.0)
    s = rng.choice([1, -1])
    new = mid * (1 - 0.08 * s)
    g.mids[i] = new
    return [{"op": "trade", "c": i, "mode": "unit", "x": s * rng.choice([2, 4, 8])},
            {"op": "quote", "c": i, "bid": new, "ask": new},
            {"op": "mark", "c": None}, {"op": "value"}]


def motif_rebalance_twice_whole_lots(rng, g, n, specs, deposit):
    i = rng.randrange(n)
    w = rng.choice([0.1027, 0.333, -0.217, 0.5])
    op = {"op": "rebal", "measure": "weight", "targets": {str(i): w}, "fractional": False, "dt": 60}
    return [dict(op), dict(op)]


def motif_exact_threshold(rng, g, n, specs, deposit):
    """Dyadic world only: imbalance weight exactly at / just below / just above the threshold."""
    i = rng.randrange(n)
    base = rng.choice([0.125, 0.25])
    thr = rng.choice([0.0625, 0.125])
    delta = rng.choice([thr, thr / 2, thr * 2, -thr])
    return [{"op": "rebal", "measure": "weight", "targets": {str(i): base}, "dt": 1},
            {"op": "rebal", "measure": "weight", "targets": {str(i): base + delta}, "margin": thr, "dt": 1}]


def motif_liquidate_below_threshold(rng, g, n, specs, deposit):
    i = rng.randrange(n)
    return [{"op": "rebal", "measure": "weight", "targets": {str(i): 0.01}, "dt": 1},
            {"op": "rebal", "measure": "weight", "targets": {}, "margin": 0.05, "dt": 1}]


def motif_missing_then_repair(rng, g, n, specs, deposit):
    i = rng.randrange(n)
    mid = g.mids.get(i, 100.0)
    side = rng.choice(["bid", "ask", "both"])
    s = rng.choice([1, -1])
    tg = {str(j): rng.choice([0.1, 0.25, -0.2]) for j in range(n) if rng.random() < 0.7}
    return [{"op": "trade", "c": i, "mode": "unit", "x": s},
            {"op": "quote", "c": i, "bid": NAN if side in ("bid", "both") else mid, "ask": NAN if side in ("ask", "both") else mid, "fault": side},
            {"op": "value"},
            {"op": "rebal", "measure": "weight", "targets": tg, "dt": 1},
            {"op": "quote", "c": i, "bid": mid, "ask": mid},
            {"op": "value"},
            {"op": "rebal", "measure": "weight", "targets": tg, "dt": 1}]


def motif_discontinue_held(rng, g, n, specs, deposit):
    i = rng.randrange(n)
    mid = g.mids.get(i, 100.0)
    return [{"op": "trade", "c": i, "mode": "unit", "x": rng.choice([1, -1])},
            {"op": "advance", "dt": 86400 * 2},
            {"op": "disc", "c": i},
            # a late quote for the dead contract - half of the time a late print stamped before the discontinuation
            dict({"op": "quote", "c": i, "bid": mid, "ask": mid}, **({"stamp_back_s": rng.choice([1, 3600, 86400])} if rng.random() < 0.5 else {})),
            {"op": "value"},
            {"op": "rebal", "measure": "weight", "targets": {}, "dt": 1}]


def describe(scenario):
    """Compact human-readable rendering used in evidence samples."""
    def f(x):
        if isinstance(x, float):
            return round(x, 6) if x == x else "nan"
        return x
    ops = []
    for op in scenario["script"][:40]:
        ops.append({k: (f(v) if not isinstance(v, dict) else {a: f(b) for a, b in v.items()}) for k, v in op.items()})
    return {"contracts": scenario["contracts"], "fees": scenario["fees"], "deposit": scenario["deposit"],
            "observe": scenario.get("observe"), "script_len": len(scenario["script"]), "script_head": ops}
