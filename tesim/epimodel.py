"""Reference models for episode-level properties, computed from the scenario
only (never from tradingenv objects): the delivery model (buckets, latent /
non-latent split, fold filtering, history replay), the delay-queue model and
the calendar-free chain model.  All time arithmetic is integer microseconds."""
import bisect
from datetime import datetime, timedelta

from tesim import core, world

EPOCH = datetime(1970, 1, 1)


def us(t):
    d = t - EPOCH
    return (d.days * 86400 + d.seconds) * 10 ** 6 + d.microseconds


class Delivery(object):
    """Expected delivery of one environment's event stream."""

    def __init__(self, spec, member_expiries=None):
        """member_expiries: list of (contract_index_or_[chain,member], symbol, expiry datetime)
        for the discontinuation events the environment adds itself (in the order
        it adds them); taken from the library's calendars (C19), as data."""
        self.spec = spec
        self.G = sorted(set(core.parse_t(s) for s in spec["grid"]))
        self.lat_us = int(spec.get("latency_us", 0))
        evs = []
        # insertion order: events handed over as objects first (list order), then the rows loaded from
        # tables with add_custom_events, class by class
        direct = [k for k, es in enumerate(spec["events"]) if not es.get("via_frame") and not es.get("late") and not es.get("via_prices")]
        framed = sorted((k for k, es in enumerate(spec["events"]) if es.get("via_frame")),
                        key=lambda k: (["EvA", "EvB", "EvC"].index(spec["events"][k]["cls"]), k))
        # a table of prices (add_prices) creates its events column by column (contracts in index order, the rate last),
        # each column in time order, equal times in list order
        priced = sorted((k for k, es in enumerate(spec["events"]) if es.get("via_prices")),
                        key=lambda k: ((1, 0) if spec["events"][k]["c"] == "rate" else (0, spec["events"][k]["c"]), core.parse_t(spec["events"][k]["t"]), k))
        late = [k for k, es in enumerate(spec["events"]) if es.get("late") and not es.get("via_frame")]   # handed over last
        rank = {k: r for r, k in enumerate(direct + framed + priced + late)}
        for k, es in enumerate(spec["events"]):
            evs.append((core.parse_t(es["t"]), rank[k], es["id"], es))
        base = len(evs)
        for j, (sym, exp) in enumerate(member_expiries or []):
            evs.append((exp, base + j, "disc:" + sym, {"type": "disc", "auto": True, "sym": sym, "t": core.iso(exp)}))
        last = self.G[-1]
        evs = [e for e in evs if e[0] <= last]
        if spec.get("markov"):
            evs = [e for e in evs if e[0] >= self.G[0]]
        evs.sort(key=lambda e: (e[0], e[1]))     # stable by time, ties in insertion order
        self.events = evs
        self.bucket = {}
        self.latent = {}
        for (t, k, eid, es) in evs:
            i = bisect.bisect_left(self.G, t)
            g = self.G[i]
            self.bucket.setdefault(g, []).append((t, k, eid, es))
            if i > 0:
                self.latent[eid] = (us(t) - us(self.G[i - 1])) <= self.lat_us
            else:
                self.latent[eid] = False     # nothing precedes the first timestep
        self.timesteps_with_events = [g for g in self.G if g in self.bucket]

    def fold_window(self, fold):
        folds = self.spec.get("folds")
        if not folds:
            return datetime.min, datetime.max
        a, b = folds[fold if fold is not None else "training-set"]
        return core.parse_t(a), core.parse_t(b)

    def fold_steps(self, fold):
        a, b = self.fold_window(fold)
        return [g for g in self.timesteps_with_events if a <= g <= b]

    def history(self, first_step):
        """Events replayed at reset, in expected order."""
        if self.spec.get("markov"):
            hist = list(self.bucket[first_step])
            # the bucket itself: latent part first, then the rest (already chronological)
            return hist
        warm = self.spec.get("warmup_s")
        origin = first_step - timedelta(seconds=warm) if warm is not None else datetime.min
        hist = [x for g in self.timesteps_with_events if origin <= g <= first_step for x in self.bucket[g]]
        hist.sort(key=lambda e: (e[0], e[1]))
        return hist

    def episode(self, steps):
        """Expected sequence for an episode visiting `steps`:
        [('M', eid, time) ...] with ('EXEC',) markers and segment boundaries
        ('RESET_END',) / ('STEP_END', k)."""
        seq = [("M", eid, t) for (t, k, eid, es) in self.history(steps[0])]
        seq.append(("RESET_END",))
        for k, s in enumerate(steps[1:]):
            b = self.bucket[s]
            seq += [("M", eid, t) for (t, _, eid, es) in b if self.latent[eid]]
            seq.append(("EXEC",))
            seq += [("M", eid, t) for (t, _, eid, es) in b if not self.latent[eid]]
            seq.append(("STEP_END", k))
        return seq

    def last_quote_at_or_before(self, cref_sym, limit_us, sym_of):
        """Last NBBO of the given concrete symbol stamped <= limit (C08)."""
        best = None
        for (t, k, eid, es) in self.events:
            if es["type"] != "nbbo":
                continue
            if us(t) > limit_us:
                break
            if sym_of(es) == cref_sym:
                best = es
        return best


def lead_index(last_trading_dates, now, month=0):
    """Calendar-free chain model: index of the first listed contract whose
    last-trading instant is strictly later than now, shifted by the offset."""
    for j, ltd in enumerate(last_trading_dates):
        if ltd > now:
            return j + month
    return None
