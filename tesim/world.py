"""Builders: scenario specs (plain JSON data) -> real tradingenv objects.

Only things the API expects a *user* to supply are defined here: user-defined
AbstractContract subclasses, custom IEvent classes, recording observers."""
from datetime import datetime, timedelta
from tesim import core  # noqa: F401  (puts REPO on sys.path)
from tradingenv import contracts as C
from tradingenv.contracts import AbstractContract, Cash, Rate
from tradingenv.events import IEvent, EventNBBO, EventContractDiscontinued, EventNewObservation
from tradingenv.broker.fees import BrokerFees

NAN = float("nan")
RATE_NAME = "FED funds rate"

_USER_CLASSES = {}


def _user_contract_class(kind, mult, mreq):
    """User-defined contract class: spot-like (paid in full, no margin) or
    margined (nothing paid upfront, margin requirement in (0, 1])."""
    key = (kind, mult, mreq)
    if key in _USER_CLASSES:
        return _USER_CLASSES[key]
    if kind == "spot":
        cash_req, margin_req, prefix = 1.0, 0.0, "UserSpot"
    else:
        cash_req, margin_req, prefix = 0.0, float(mreq), "UserMargined"

    class _UserContract(AbstractContract):
        multiplier = float(mult)
        cash_requirement = cash_req
        margin_requirement = margin_req

        def __init__(self, symbol):
            self._symbol = symbol

        @property
        def symbol(self):
            return self._symbol

        def __reduce__(self):
            # picklable although the class is made at run time (checkpoint / resume in another process)
            return (_rebuild_user_contract, (kind, mult, mreq, self._symbol))

    _UserContract.__name__ = prefix
    _UserContract.__qualname__ = prefix
    _USER_CLASSES[key] = _UserContract
    return _UserContract


def _rebuild_user_contract(kind, mult, mreq, symbol):
    return _user_contract_class(kind, mult, mreq)(symbol)


class UserInstrument(AbstractContract):
    """One user-defined class for all instruments of a venue: multiplier, cash and margin requirements are
    properties of the *instance* (the abstract base only asks for properties of these names)."""

    def __init__(self, symbol, mult, cash_req, margin_req):
        self._symbol = symbol
        self._mult = float(mult)
        self._cash_req = float(cash_req)
        self._margin_req = float(margin_req)

    @property
    def symbol(self):
        return self._symbol

    @property
    def multiplier(self):
        return self._mult

    @property
    def cash_requirement(self):
        return self._cash_req

    @property
    def margin_requirement(self):
        return self._margin_req


class UN(C.Future):
    """A user-defined monthly future (the documented extension point: subclass Future) that stops trading at
    noon of the 15th of its month - an intraday cut-off, unlike the built-in calendars which all end at midnight -
    and expires on the 20th."""
    multiplier = 10.0
    margin_requirement = 0.1
    freq = "ME"

    def _get_expiry_date(self, year, month):
        return datetime(year, month, 20)

    def _get_last_trading_date(self, expiry):
        return datetime(expiry.year, expiry.month, 15, 12, 0)


FUTURE_CLASSES = {"ES": C.ES, "NK": C.NK, "ZN": C.ZN, "ZB": C.ZB, "ZF": C.ZF,
                  "ZT": C.ZT, "ZQ": C.ZQ, "VX": C.VX, "UN": UN}
ASSET_CLASSES = {"ETF": C.ETF, "Stock": C.Stock, "Index": C.Index, "Asset": C.Asset}


def build_contract(spec):
    """spec: {"name":..., "kind": "spot"|"margined"|"ETF"|"Stock"|"Index"|
    "future"|"chain", ...}"""
    kind = spec["kind"]
    if kind in ASSET_CLASSES:
        return ASSET_CLASSES[kind](spec["name"])
    if kind in ("spot", "margined") and spec.get("per_instance"):
        return UserInstrument(spec["name"], spec.get("mult", 1.0), 1.0 if kind == "spot" else 0.0, 0.0 if kind == "spot" else spec.get("mreq", 0.0))
    if kind in ("spot", "margined"):
        return _user_contract_class(kind, spec.get("mult", 1.0), spec.get("mreq", 0.0))(spec["name"])
    if kind == "future":
        return FUTURE_CLASSES[spec["cls"]](spec["year"], spec["month"])
    if kind == "chain":
        if "members" in spec:
            members = [FUTURE_CLASSES[spec["cls"]](y, m) for (y, m) in spec["members"]]
            return C.FutureChain(contracts=members, month=spec.get("month", 0))
        chain = C.FutureChain(FUTURE_CLASSES[spec["cls"]], spec["start"], spec["end"], month=spec.get("month", 0))
        if spec.get("listed_order_seed") is not None:
            # the same members handed over as an explicit list in an arbitrary order (the constructor sorts them)
            import random
            members = list(chain.contracts)
            random.Random(spec["listed_order_seed"]).shuffle(members)
            chain = C.FutureChain(contracts=members, month=spec.get("month", 0))
        return chain
    if kind == "cash":
        return Cash(spec.get("name", "USD"))
    raise ValueError("unknown contract kind " + str(kind))


def contract_params(spec, contract=None):
    """(multiplier, cash_requirement, margin_requirement) of a spec, read from
    the *spec* (reference model side), never from tradingenv arithmetic."""
    kind = spec["kind"]
    if kind in ASSET_CLASSES:
        return 1.0, 1.0, 0.0
    if kind == "spot":
        return float(spec.get("mult", 1.0)), 1.0, 0.0
    if kind == "margined":
        return float(spec.get("mult", 1.0)), 0.0, float(spec["mreq"])
    if kind in ("future", "chain"):
        table = {"ES": (50.0, 0.1), "NK": (5.0, 0.3), "ZN": (1000.0, 0.03), "ZB": (1000.0, 0.05),
                 "ZF": (1000.0, 0.02), "ZT": (2000.0, 0.02), "ZQ": (4167.0, 0.004), "VX": (1000.0, 0.5), "UN": (10.0, 0.1)}
        m, r = table[spec["cls"]]
        return m, 0.0, r
    raise ValueError(kind)


def build_fees(spec):
    spec = spec or {}
    return BrokerFees(markup=spec.get("markup", 0.0), interest_rate=Rate(RATE_NAME),
                      proportional=spec.get("prop", 0.0), fixed=spec.get("fixed", 0.0))


# ---- custom events (user extension point) ---------------------------------
class EvA(IEvent):
    def __init__(self, time, tag):
        self.time = time
        self.tag = tag


class EvB(IEvent):
    def __init__(self, time, tag):
        self.time = time
        self.tag = tag


class EvC(IEvent):
    def __init__(self, time, tag):
        self.time = time
        self.tag = tag


class EvLate(IEvent):
    """An event nobody observes, handed to a transmitter after its environment was built."""
    def __init__(self, time, tag):
        self.time = time
        self.tag = tag


CUSTOM_EVENTS = {"EvA": EvA, "EvB": EvB, "EvC": EvC}
