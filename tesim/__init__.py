"""tesim - deterministic simulation with fault injection for tradingenv.

See /verif/DESIGN.md. Run through /verif/check (never `python -m`)."""
TESIM_VERSION = "1.0"
