"""Shared pieces of the episode-level history checkers."""
import math
from fractions import Fraction as F

from tesim import core, world, gen_epi
from tesim.epimodel import Delivery, us

NAN = float("nan")


def same(a, b):
    return (a != a and b != b) or a == b


def mk_violation_sink():
    violations, probes = [], {}

    def violate(clause, msg, op=None, **sig):
        if not violations:
            violations.append({"clause": clause, "sig": sig, "op": op, "msg": msg})

    def probe(n, k=1):
        probes[n] = probes.get(n, 0) + k
    return violations, probes, violate, probe


def space_symbols(h):
    """Symbols (None for cash) of the action-space contracts, in order; chain
    entries are resolved by the caller."""
    out = []
    for c in h.space_contracts:
        out.append(c)
    return out


def allocation_of_action(h, action, lead_symbol=None):
    """The allocation an in-space action denotes: {symbol: value}, cash and
    zero entries dropped (the statement of C17/C08)."""
    sp = h.spec["space"]
    if isinstance(action, dict) and "as" in action:
        action = action["v"]
    if sp["type"] == "discrete":
        row = sp["allocations"][int(action)]
    else:
        row = list(action)
    out = {}
    from tradingenv.contracts import Cash
    for c, v in zip(h.space_contracts, row):
        if isinstance(c, Cash) or v == 0:
            continue
        idx = h.contracts.index(c) if c in h.contracts else None
        sym = None
        for j, cc in enumerate(h.contracts):
            if cc is c:
                spec = h.spec["contracts"][j]
                sym = ("chain", j) if spec["kind"] == "chain" else cc.symbol
        out[sym] = float(v)
    return out


def resolve_allocation(h, alloc, now):
    """Replaces ('chain', j) keys by the symbol of the contract the chain denotes at `now` according to the
    calendar-free model (first listed contract whose last-trading instant is strictly later than now, shifted
    by the chain's month offset); the listed instants are data taken from the library (C19)."""
    from tesim.epimodel import lead_index
    out = {}
    for key, v in alloc.items():
        if isinstance(key, tuple) and key[0] == "chain":
            j = key[1]
            chain = h.contracts[j]
            ltd = [f.last_trading_date.to_pydatetime() if hasattr(f.last_trading_date, "to_pydatetime") else f.last_trading_date for f in chain.contracts]
            t = now.to_pydatetime() if hasattr(now, "to_pydatetime") else now
            idx = lead_index(ltd, t, h.spec["contracts"][j].get("month", 0))
            if idx is None or idx >= len(chain.contracts):
                raise core.HarnessError("chain has no lead at {}".format(now))
            key = chain.contracts[idx].symbol
        out[key] = out.get(key, 0.0) + v
    return out


def null_allocation(h):
    sp = h.spec["space"]
    if sp["type"] == "discrete":
        return allocation_of_action(h, 0)
    return {}


def expected_books(d, h, steps, upto_exec, at_step_end=False):
    """Model book state (symbol -> (bid, ask)) right before the upto_exec-th
    execution (0-based) of an episode visiting `steps` - or, with at_step_end, at the end of
    that step - from the delivery model."""
    seq = d.episode(steps)
    by_id = {es["id"]: es for es in h.spec["events"]}
    books = {}
    dead = set()
    n_exec = -1
    for item in seq:
        if item[0] == "STEP_END" and at_step_end and item[1] == upto_exec:
            return books
        if item[0] == "EXEC":
            n_exec += 1
            if n_exec == upto_exec and not at_step_end:
                return books
        elif item[0] == "M":
            eid = item[1]
            if isinstance(eid, str) and eid.startswith("disc:"):
                sym = eid[5:]
                dead.add(sym)
                books[sym] = (NAN, NAN)
                continue
            es = by_id[eid]
            if es["type"] == "nbbo":
                sym = event_symbol(h, es, item[2])
                if sym in dead:
                    continue
                books[sym] = (es["bid"], es["ask"])
            elif es["type"] == "rate":
                books["__rate__"] = (es["bid"], es["ask"]) if es.get("via_prices") else (es["r"], es["r"])
            elif es["type"] == "disc":
                sym = event_symbol(h, es, item[2])
                dead.add(sym)
                books[sym] = (NAN, NAN)
    return books


def event_symbol(h, es, t=None):
    c = es["c"]
    if isinstance(c, list) and c[1] == "chain":
        # addressed to the chain: filed under the contract the chain stands for at the event's own time
        return list(resolve_allocation(h, {("chain", c[0]): 1.0}, t if t is not None else core.parse_t(es["t"])))[0]
    if isinstance(c, list):
        return h.contracts[c[0]].contracts[c[1]].symbol
    if c == "rate":
        return "__rate__"
    return h.contracts[c].symbol


def visited_steps(d, env_spec, ep):
    """Timesteps an (un-failed) episode visits, derived from the clock after reset."""
    fold = ep["reset"]["fold"]
    steps_fold = d.fold_steps(fold)
    now = ep["reset"]["now"]
    start = None
    for j, g in enumerate(steps_fold):
        if d.bucket[g][-1][0] == now:
            start = j
    if start is None:
        return None
    L = env_spec.get("episode_length")
    return steps_fold[start:start + L + 1] if L else steps_fold[start:]


class ReplayLedger(object):
    """Independent ledger fed only with recorded trades, recorded interest and
    the book snapshots taken at each EXEC (C07)."""

    def __init__(self, h):
        self.h = h
        self.deposit = F(h.spec.get("cash", 100.0))
        self.pos = {}
        self.flows = {}
        self.comm = F(0)
        self.interest = F(0)
        self.params = {}
        for c, s in zip(h.contracts, h.spec["contracts"]):
            m, cr, mr = world.contract_params(s)
            if s["kind"] == "chain":
                for f in c.contracts:
                    self.params[f.symbol] = (F(m), F(cr), F(mr))
            else:
                self.params[c.symbol] = (F(m), F(cr), F(mr))
        fees = h.spec.get("fees") or {}
        self.fixed = F(fees.get("fixed", 0.0))
        self.prop = F(fees.get("prop", 0.0))
        self.scale = abs(float(self.deposit))
        self.slack = 0.0
        self.flattened = 0

    def tol(self):
        return 1e-9 * self.scale + self.slack

    def nlv(self, books):
        v = self.deposit + self.interest - self.comm
        for sym, q in self.pos.items():
            m = self.params[sym][0]
            if q != 0:
                bid, ask = books.get(sym, (NAN, NAN))
                px = bid if q > 0 else ask
                if px != px:
                    return None
                v += m * q * F(px)
            v -= m * self.flows.get(sym, F(0))
        return v

    def apply(self, tr):
        sym = tr["sym"]
        q, px = F(tr["q"]), F(tr["px"])
        m = self.params[sym][0]
        self.pos[sym] = self.pos.get(sym, F(0)) + q
        self.flows[sym] = self.flows.get(sym, F(0)) + q * px
        if self.pos[sym] != 0 and abs(self.pos[sym]) < F(1, 10 ** 7):
            # documented approximation of Broker.transact: a residual below epsilon is dropped
            self.slack += float(abs(self.pos[sym]) * px * m)
            self.flattened += 1
            self.pos[sym] = F(0)
        self.comm += self.fixed + self.prop * abs(q * px * m)
        self.scale = max(self.scale, abs(float(q * px * m)))

    def commission(self, tr):
        m = self.params[tr["sym"]][0]
        return self.fixed + self.prop * abs(F(tr["q"]) * F(tr["px"]) * m)


def reward_model(spec, nlv_now, nlv_pre):
    cls = (spec or {"cls": "RewardSimpleReturn"})["cls"]
    if cls == "RewardSimpleReturn":
        return nlv_now / nlv_pre - 1
    if cls == "RewardLogReturn":
        return math.log(nlv_now / nlv_pre)
    if cls == "RewardPnL":
        return nlv_now - nlv_pre
    if cls == "LogReturn":
        r = math.log(nlv_now / nlv_pre) / spec.get("scale", 1.0)
        c = spec.get("clip", 2.0)
        r = max(-c, min(c, r))
        if r < 0:
            r *= 1 + spec.get("risk_aversion", 0.0)
        return r
    raise core.HarnessError("unknown reward " + cls)
