#!/venv/bin/python
"""Confirms a seeded change produced by an independent sub-agent and runs the
checks against it.

usage: tools/eval_seeded.py <worktree> <seed-id> <PROP> [more PROPs to run] [--no-suite] [--keep]

Steps (all in the scratch worktree, /repo is never touched):
 1. demo.py fails (exit != 0) with the change and passes (exit 0) without it (git apply -R / git apply);
 2. the repository's own suite passes with the change;
 3. each named check is run with TESIM_REPO=<worktree>; exit 1 = caught;
 4. patch.diff, demo.py and meta.json (extended with what was run and found) are
    copied to /verif/seeded/<seed-id>/.
"""
import os
import sys
import json
import shutil
import subprocess

VERIF = os.path.dirname(os.path.dirname(os.path.abspath(__file__)))
SUITE = ("cd {d} && /venv/bin/python -m pytest -q -p no:cacheprovider -p no:cov "
         "-o addopts='--doctest-modules -p no:warnings --ignore=docs/' --ignore=tests/examples --ignore=demo.py --timeout=900 2>&1 | tail -1")


def sh(cmd, **kw):
    return subprocess.run(cmd, shell=True, capture_output=True, text=True, **kw)


def main():
    args = [a for a in sys.argv[1:] if not a.startswith("--")]
    flags = [a for a in sys.argv[1:] if a.startswith("--")]
    wt, sid, props = args[0], args[1], args[2:]
    env = dict(os.environ, PYTHONPATH=wt)
    res = {"worktree": wt, "checks": {}}
    # never `git stash` here: the stash is shared by all worktrees of a repository
    sh("cd {} && git checkout -- tradingenv && git apply patch.diff".format(wt))
    r1 = sh("cd {} && /venv/bin/python demo.py".format(wt), env=env)
    res["demo_with_change_exit"] = r1.returncode
    res["demo_with_change_tail"] = (r1.stdout + r1.stderr)[-600:]
    sh("cd {} && git apply -R patch.diff".format(wt))
    r0 = sh("cd {} && /venv/bin/python demo.py".format(wt), env=env)
    sh("cd {} && git apply patch.diff".format(wt))
    res["demo_without_change_exit"] = r0.returncode
    still = sh("cd {} && git diff --stat -- tradingenv | tail -1".format(wt)).stdout.strip()
    res["diffstat"] = still
    if "--no-suite" not in flags:
        res["suite_with_change"] = sh(SUITE.format(d=wt)).stdout.strip()
    for p in props:
        e = dict(os.environ, TESIM_REPO=wt, TESIM_NO_DET="1", TESIM_REPLAY_DIR="/tmp/tesim_seed_replays/" + sid,
                 TESIM_EVIDENCE_DIR="/tmp/tesim_seed_evidence")
        r = sh("{}/check {}".format(VERIF, p), env=e)
        first = [l for l in r.stdout.splitlines() if l.startswith("  clause=")]
        res["checks"][p] = {"exit": r.returncode, "verdict": {0: "MISSED", 1: "CAUGHT", 3: "HARNESS-ERROR"}.get(r.returncode, str(r.returncode)),
                            "first_violation": first[0].strip()[:400] if first else ""}
    out = os.path.join(VERIF, "seeded", sid)
    os.makedirs(out, exist_ok=True)
    for f in ("patch.diff", "demo.py"):
        shutil.copy(os.path.join(wt, f), os.path.join(out, f))
    meta = {}
    mp = os.path.join(wt, "meta.json")
    if os.path.exists(mp):
        with open(mp) as f:
            meta = json.load(f)
    meta["confirmed"] = {
        "demo_fails_with_change": res["demo_with_change_exit"] != 0,
        "demo_passes_without_change": res["demo_without_change_exit"] == 0,
        "suite_with_change": res.get("suite_with_change", "not run"),
        "diffstat": res["diffstat"],
    }
    meta["ran"] = ["demo.py with and without the change (git apply -R patch.diff)", "repository suite with the change",
                   "TESIM_REPO=<worktree> ./check <prop> for " + ", ".join(props)]
    meta["checks"] = res["checks"]
    with open(os.path.join(out, "meta.json"), "w") as f:
        json.dump(meta, f, indent=1)
    print(json.dumps({k: v for k, v in res.items() if k != "demo_with_change_tail"}, indent=1))


if __name__ == "__main__":
    main()
