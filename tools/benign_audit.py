#!/venv/bin/python
"""False-alarm audit (not a registered check): applies bundles of behaviour-preserving edits
(re-associated float arithmetic, reworded messages, derived exception classes, copies instead of
shared lists, extra attributes/logging, another import style) to a scratch copy of /repo's HEAD made
outside /repo and /verif, runs the repository's own suite on it (--suite) and EVERY registered check
with TESIM_REPO=<scratch>, and deletes the copy.  Every check must exit 0 on every bundle: an exit 1
here is a false alarm of the machinery (an oracle stricter than the property), an exit 3 a harness
that leans on an implementation detail.

usage: tools/benign_audit.py [--suite] [--only ID[,ID]] [--props C01,C05] [--parallel 2] [--workers 6]
Catalogue: tools/benign.json  [{id, note, edits:[{file, old, new}]}]
Output: a table on stdout and tools/benign_results.json
"""
import os
import sys
import json
import shutil
import argparse
import subprocess
import tempfile
from concurrent.futures import ThreadPoolExecutor

VERIF = os.path.dirname(os.path.dirname(os.path.abspath(__file__)))
sys.path.insert(0, os.path.join(VERIF, "tools"))
from mutation_audit import make_copy, apply_mutant, SUITE  # noqa: E402


def all_props():
    with open(os.path.join(VERIF, "MANIFEST.json")) as f:
        man = json.load(f)
    return sorted(c["property_id"] if "property_id" in c else c["id"] for c in man["checks"])


def run_one(b, args, props):
    root = tempfile.mkdtemp(prefix="tesim_benign_{}_".format(b["id"]), dir=os.environ.get("TMPDIR", "/tmp"))
    shutil.rmtree(root)
    res = {"id": b["id"], "note": b.get("note", ""), "edits": len(b["edits"]), "checks": {}}
    try:
        make_copy(root)
        for k, e in enumerate(b["edits"]):
            apply_mutant(root, dict(e, id="{}#{}".format(b["id"], k)))
        if args.suite:
            out = subprocess.run(SUITE.format(d=root), shell=True, capture_output=True, text=True,
                                 env=dict(os.environ, PYTHONPATH=root)).stdout.strip().splitlines()
            res["suite"] = out[-1] if out else "?"
        for p in props:
            env = dict(os.environ, TESIM_REPO=root, TESIM_NO_DET="1", TESIM_REPLAY_DIR="/tmp/tesim_benign_replays/" + b["id"],
                       TESIM_EVIDENCE_DIR="/tmp/tesim_benign_evidence/" + b["id"])
            cmd = [os.path.join(VERIF, "check"), p, "--workers", str(args.workers)]
            if args.seed:
                cmd += ["--seed", str(args.seed)]
            r = subprocess.run(cmd, capture_output=True, text=True, env=env)
            first = [l for l in r.stdout.splitlines() if l.startswith("  clause=")]
            tail = r.stdout.strip().splitlines()[-1:] if r.returncode == 3 else []
            res["checks"][p] = {"exit": r.returncode, "first": (first[0][:300] if first else "") or (tail[0][:300] if tail else "")}
            print("  {:22s} {} exit={}".format(b["id"], p, r.returncode), flush=True)
    finally:
        shutil.rmtree(root, ignore_errors=True)
        shutil.rmtree("/tmp/tesim_benign_replays/" + b["id"], ignore_errors=True)
        shutil.rmtree("/tmp/tesim_benign_evidence/" + b["id"], ignore_errors=True)
    bad = {p: c for p, c in res["checks"].items() if c["exit"] != 0}
    print("{:26s} {}  {}".format(b["id"], res.get("suite", ""), "QUIET on all {} checks".format(len(res["checks"])) if not bad else
                                 " ".join("{}:{}".format(p, {1: "ALARM", 3: "HARNESS"}.get(c["exit"], c["exit"])) for p, c in bad.items())), flush=True)
    for p, c in bad.items():
        print("      {} {}".format(p, c["first"]), flush=True)
    return res


def main():
    ap = argparse.ArgumentParser()
    ap.add_argument("--suite", action="store_true")
    ap.add_argument("--only", default="")
    ap.add_argument("--props", default="")
    ap.add_argument("--seed", type=int, default=0)
    ap.add_argument("--workers", type=int, default=6)
    ap.add_argument("--parallel", type=int, default=2)
    args = ap.parse_args()
    with open(os.path.join(VERIF, "tools", "benign.json")) as f:
        cat = json.load(f)
    if args.only:
        want = set(args.only.split(","))
        cat = [b for b in cat if b["id"] in want]
    props = args.props.split(",") if args.props else all_props()
    with ThreadPoolExecutor(max_workers=args.parallel) as ex:
        results = list(ex.map(lambda b: run_one(b, args, props), cat))
    out = os.path.join(VERIF, "tools", "benign_results.json")
    prev = {}
    if os.path.exists(out):
        with open(out) as f:
            prev = {r["id"]: r for r in json.load(f)}
    for r in results:
        if args.props and r["id"] in prev:
            prev[r["id"]]["checks"].update(r["checks"])
        else:
            prev[r["id"]] = r
    with open(out, "w") as f:
        json.dump([prev[k] for k in sorted(prev)], f, indent=1)
    alarms = sum(1 for r in results for c in r["checks"].values() if c["exit"] != 0)
    print("bundles {}  check runs {}  alarms {}".format(len(results), sum(len(r["checks"]) for r in results), alarms))
    return 0 if alarms == 0 else 1


if __name__ == "__main__":
    sys.exit(main())
