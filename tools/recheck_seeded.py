#!/venv/bin/python
"""Regression run over every kept seeded change: each patch is applied to a scratch copy of /repo's
working tree (under /tmp, removed afterwards) and the check of the property it was written against
is run on it with the current machinery.  Writes /verif/seeded/recheck.json.

usage: tools/recheck_seeded.py [--parallel 4] [--workers 4] [--only S-C07-d,S-C09-f]
"""
import os
import sys
import json
import glob
import shutil
import argparse
import subprocess
from concurrent.futures import ThreadPoolExecutor

VERIF = os.path.dirname(os.path.dirname(os.path.abspath(__file__)))
REPO = os.environ.get("TESIM_REPO_BASE", "/repo")


def one(args):
    sid, workers = args
    d = os.path.join(VERIF, "seeded", sid)
    with open(os.path.join(d, "meta.json")) as f:
        meta = json.load(f)
    prop = meta.get("property")
    scratch = "/tmp/recheck_{}".format(sid)
    shutil.rmtree(scratch, ignore_errors=True)
    os.makedirs(scratch)
    try:
        subprocess.run("cd {} && git archive HEAD | tar -x -C {}".format(REPO, scratch), shell=True, check=True, capture_output=True)
        r = subprocess.run(["git", "apply", "--directory", scratch, "--unsafe-paths", os.path.join(d, "patch.diff")], cwd="/", capture_output=True, text=True)
        if r.returncode != 0:
            r = subprocess.run("cd {} && patch -p1 < {}".format(scratch, os.path.join(d, "patch.diff")), shell=True, capture_output=True, text=True)
            if r.returncode != 0:
                return sid, {"property": prop, "verdict": "PATCH-FAILED", "detail": (r.stdout + r.stderr)[-300:]}
        env = dict(os.environ, TESIM_REPO=scratch, TESIM_NO_DET="1", TESIM_WORKERS=str(workers),
                   TESIM_REPLAY_DIR="/tmp/recheck_replays/" + sid, TESIM_EVIDENCE_DIR="/tmp/recheck_evidence/" + sid)
        r = subprocess.run([os.path.join(VERIF, "check"), prop], env=env, capture_output=True, text=True)
        first = [l for l in r.stdout.splitlines() if l.startswith("  clause=")]
        return sid, {"property": prop, "exit": r.returncode, "verdict": {0: "MISSED", 1: "CAUGHT", 3: "HARNESS-ERROR"}.get(r.returncode, str(r.returncode)),
                     "first_violation": first[0].strip()[:300] if first else ""}
    finally:
        shutil.rmtree(scratch, ignore_errors=True)
        shutil.rmtree("/tmp/recheck_replays/" + sid, ignore_errors=True)
        shutil.rmtree("/tmp/recheck_evidence/" + sid, ignore_errors=True)


def main():
    ap = argparse.ArgumentParser()
    ap.add_argument("--parallel", type=int, default=4)
    ap.add_argument("--workers", type=int, default=4)
    ap.add_argument("--only", default="")
    a = ap.parse_args()
    ids = sorted(os.path.basename(p) for p in glob.glob(os.path.join(VERIF, "seeded", "S-*")) if os.path.isdir(p))
    if a.only:
        ids = [i for i in ids if i in a.only.split(",")]
    res = {}
    with ThreadPoolExecutor(a.parallel) as ex:
        for sid, r in ex.map(one, [(i, a.workers) for i in ids]):
            res[sid] = r
            print("{:10s} {:4s} {}".format(sid, r.get("property") or "?", r["verdict"]), flush=True)
    out = os.path.join(VERIF, "seeded", "recheck.json")
    if not a.only:
        with open(out, "w") as f:
            json.dump(res, f, indent=1, sort_keys=True)
    n = sum(1 for r in res.values() if r["verdict"] == "CAUGHT")
    print("caught {} of {}".format(n, len(res)))
    return 0 if n == len(res) else 1


if __name__ == "__main__":
    sys.exit(main())
