#!/usr/bin/env python3
"""Regenerates /verif/MANIFEST.json from tools/manifest_table.json (keeps the
manifest valid and in step with the property modules that exist)."""
import json
import os

HERE = os.path.dirname(os.path.dirname(os.path.abspath(__file__)))


def main():
    with open(os.path.join(HERE, "tools", "manifest_table.json")) as f:
        table = json.load(f)
    checks = []
    for pid in sorted(table["checks"]):
        c = table["checks"][pid]
        if not os.path.exists(os.path.join(HERE, "tesim", "props", pid.lower() + ".py")):
            raise SystemExit("no property module for " + pid)
        checks.append({
            "property_id": pid,
            "quick_cmd": "./check {} --tier quick".format(pid),
            "thorough_cmd": "./check {} --tier thorough".format(pid),
            "evidence_file": "/verif/evidence/{}.json".format(pid),
            "replay_cmd_template": "./check replay {path}",
            "engine": "tesim-" + c["engine"],
            "level_claimed": {"category": "exploration", "text": c["text"], "design_ref": "DESIGN.md section " + c["ref"]},
            "level_note": c["note"],
            "technique": "deterministic simulation with fault injection: " + c["technique"],
        })
    na = list(table["not_applicable"])
    for pid, reason in sorted(table.get("not_yet", {}).items()):
        if pid not in table["checks"]:
            na.append({"property_id": pid, "reason": reason})
    kinds = {
        "acct": ("/verif/tesim/acct.py", "seeded op-script executor over the real Exchange+Broker with an exact Fraction ledger as reference model"),
        "epi": ("/verif/tesim/epi.py", "seeded episode executor over the real Transmitter+TradingEnv with recording observers, EXEC markers and history checkers"),
        "xy": ("/verif/tesim/xy.py", "seeded tabular-world executor over the real TradingEnvXY"),
    }
    engines = []
    for k, (path, text) in kinds.items():
        serves = [p for p in sorted(table["checks"]) if table["checks"][p]["engine"] == k]
        if serves:
            engines.append({"name": "tesim-" + k, "path": path, "serves_properties": serves, "kind_free_text": text})
    man = {
        "version": 1,
        "setup_cmd": "/venv/bin/python -c \"import tradingenv, jsonschema, numpy, pandas\" && chmod +x /verif/check",
        "hooks": {
            "guard": "TRADINGENV_VERIF",
            "enable": "no source hooks: every seam (AbstractContract.now, global numpy/random PRNGs, datetime names in tradingenv.transmitter and tradingenv.broker.rebalancing, observers, Broker.rebalance on the instance) is owned in-process by tesim",
            "baseline_off_cmd": "cd /repo && /venv/bin/python -m pytest -ra -q -p no:cacheprovider --timeout=900 --continue-on-collection-errors",
            "source_commits": [],
            "add_only": True,
        },
        "engines": engines,
        "checks": checks,
        "notes": "All checks run /repo's working tree in-process (sys.path[0]=/repo, verified per run). Exit 0 held / 1 VIOLATION / 3 HARNESS-ERROR. Fixes to /repo are 'fix:' commits listed in known_findings.json. See DESIGN.md.",
        "not_applicable": na,
    }
    with open(os.path.join(HERE, "MANIFEST.json"), "w") as f:
        json.dump(man, f, indent=1)
    print("wrote MANIFEST.json with", len(checks), "checks")


if __name__ == "__main__":
    main()
