#!/venv/bin/python
"""Sensitivity audit (not a registered check): applies realistic source
mutations, one at a time, to a scratch copy of /repo's HEAD made outside /repo
and /verif, runs (a) optionally the repository's own suite and (b) the relevant
checks with TESIM_REPO=<scratch>, and deletes the copy.

usage: tools/mutation_audit.py [--suite] [--only ID[,ID]] [--props C01,C05] [--runs N]
Catalogue: tools/mutants.json  [{id, file, old, new, props:[...], note}]
Output: a table on stdout and tools/mutation_results.json
"""
import os
import sys
import json
import shutil
import argparse
import subprocess
import tempfile
from concurrent.futures import ThreadPoolExecutor

VERIF = os.path.dirname(os.path.dirname(os.path.abspath(__file__)))
SUITE = ("cd {d} && /venv/bin/python -m pytest -q -x -p no:cacheprovider -p no:cov "
         "-o addopts='--doctest-modules -p no:warnings --ignore=docs/' --ignore=tests/examples --timeout=900 2>&1 | tail -3")


def make_copy(dst):
    os.makedirs(dst)
    p1 = subprocess.Popen(["git", "-C", "/repo", "archive", "HEAD"], stdout=subprocess.PIPE)
    subprocess.check_call(["tar", "-x", "-C", dst], stdin=p1.stdout)
    p1.wait()


def apply_mutant(root, m):
    path = os.path.join(root, m["file"])
    with open(path, newline="") as f:
        s = f.read()
    old, new = m["old"], m["new"]
    if "\r\n" in s:
        old = old.replace("\n", "\r\n")
        new = new.replace("\n", "\r\n")
    if s.count(old) != 1:
        raise SystemExit("mutant {}: pattern occurs {} times".format(m["id"], s.count(old)))
    with open(path, "w", newline="") as f:
        f.write(s.replace(old, new))


def run_one(m, args):
    root = tempfile.mkdtemp(prefix="tesim_mut_{}_".format(m["id"]), dir=os.environ.get("TMPDIR", "/tmp"))
    shutil.rmtree(root)
    res = {"id": m["id"], "note": m.get("note", ""), "checks": {}}
    try:
        make_copy(root)
        try:
            apply_mutant(root, m)
        except BaseException as e:
            res["error"] = str(e)
            print("{:28s} NOT APPLIED: {}".format(m["id"], e), flush=True)
            return res
        if args.suite:
            out = subprocess.run(SUITE.format(d=root), shell=True, capture_output=True, text=True,
                                 env=dict(os.environ, PYTHONPATH=root)).stdout.strip().splitlines()
            res["suite"] = out[-1] if out else "?"
        props = args.props.split(",") if args.props else m["props"]
        for p in props:
            env = dict(os.environ, TESIM_REPO=root, TESIM_NO_DET="1", TESIM_REPLAY_DIR="/tmp/tesim_mut_replays", TESIM_EVIDENCE_DIR="/tmp/tesim_mut_evidence")
            cmd = [os.path.join(VERIF, "check"), p]
            if args.runs:
                cmd += ["--runs", str(args.runs)]
            if args.workers:
                cmd += ["--workers", str(args.workers)]
            r = subprocess.run(cmd, capture_output=True, text=True, env=env)
            first = [l for l in r.stdout.splitlines() if l.startswith("  clause=")]
            res["checks"][p] = {"exit": r.returncode, "first": first[0][:200] if first else ""}
    finally:
        shutil.rmtree(root, ignore_errors=True)
    print("{:36s} {}".format(m["id"], " ".join("{}:{}".format(p, {0: "MISSED", 1: "CAUGHT", 3: "HARNESS"}.get(c["exit"], c["exit"])) for p, c in res["checks"].items())), flush=True)
    return res


def main():
    ap = argparse.ArgumentParser()
    ap.add_argument("--suite", action="store_true")
    ap.add_argument("--only", default="")
    ap.add_argument("--props", default="")
    ap.add_argument("--runs", type=int, default=0)
    ap.add_argument("--workers", type=int, default=4)
    ap.add_argument("--parallel", type=int, default=4)
    args = ap.parse_args()
    with open(os.path.join(VERIF, "tools", "mutants.json")) as f:
        cat = json.load(f)
    if args.only:
        want = set(args.only.split(","))
        cat = [m for m in cat if m["id"] in want or any(m["id"].startswith(w) for w in want)]
    with ThreadPoolExecutor(max_workers=args.parallel) as ex:
        results = list(ex.map(lambda m: run_one(m, args), cat))
    print("---- summary ----")
    for r in results:
        if "error" in r:
            continue
        line = "{:28s}".format(r["id"])
        if "suite" in r:
            line += " suite[{}]".format(r["suite"][:40])
        for p, c in r["checks"].items():
            line += " {}:{}".format(p, {0: "MISSED", 1: "CAUGHT", 3: "HARNESS"}.get(c["exit"], c["exit"]))
        print(line)
        for p, c in r["checks"].items():
            if c["first"]:
                print("      " + p + c["first"])
    out = os.path.join(VERIF, "tools", "mutation_results.json")
    prev = {}
    if os.path.exists(out):
        with open(out) as f:
            prev = {r["id"]: r for r in json.load(f)}
    for r in results:
        if "error" not in r:
            prev[r["id"]] = r
    with open(out, "w") as f:
        json.dump([prev[k] for k in sorted(prev)], f, indent=1)


if __name__ == "__main__":
    main()
