#!/bin/bash
# usage: tools/soak.sh <tier> <seed> [props...]   - runs the checks one after the other, prints one line each
cd "$(dirname "$0")/.." || exit 3
tier=$1; seed=$2; shift 2
props=${@:-C01 C02 C03 C04 C05 C06 C07 C08 C09 C10 C11 C12 C13 C14 C15 C17 C18}
for p in $props; do
  out=$(TESIM_REPLAY_DIR=${TESIM_REPLAY_DIR:-$PWD/soak_replays} TESIM_EVIDENCE_DIR=${TESIM_EVIDENCE_DIR:-$PWD/soak_evidence} ./check $p --tier $tier --seed $seed 2>&1)
  code=$?
  echo "SOAK $p tier=$tier seed=$seed exit=$code :: $(echo "$out" | grep -v KNOWN-FINDING | tail -1 | cut -c1-200)"
  echo "$out" | grep -E "^VIOLATION|^  clause=|^HARNESS-ERROR" | head -8 | cut -c1-500
done
