#!/usr/bin/env python3
"""Renders the sensitivity tables (mutation audit + seeded changes) as markdown
to stdout and to /verif/seeded/README.md."""
import os
import json
import glob

HERE = os.path.dirname(os.path.dirname(os.path.abspath(__file__)))


def main():
    out = []
    mp = os.path.join(HERE, "tools", "mutation_results.json")
    if os.path.exists(mp):
        with open(mp) as f:
            res = json.load(f)
        with open(os.path.join(HERE, "tools", "mutants.json")) as f:
            cat = {m["id"]: m for m in json.load(f)}
        out.append("### Mutation audit (tools/mutation_audit.py; every mutant on a scratch copy of /repo's HEAD)\n")
        out.append("| mutant | file | checks run: verdict |")
        out.append("|---|---|---|")
        for r in sorted(res, key=lambda r: r["id"]):
            if r["id"] not in cat:
                continue
            checks = ", ".join("{}: {}".format(p, {0: "missed", 1: "**caught**", 3: "harness error"}.get(c["exit"], c["exit"]))
                               for p, c in r["checks"].items())
            out.append("| {} | {} | {} |".format(r["id"], cat[r["id"]]["file"].replace("tradingenv/", ""), checks))
        out.append("")
    out.append("### Independently seeded changes (/verif/seeded/<id>/: patch.diff, demo.py, meta.json)\n")
    out.append("| id | property | change (sub-agent's summary) | needs | confirmed (demo fails with / passes without, suite) | checks run: verdict |")
    out.append("|---|---|---|---|---|---|")
    for d in sorted(glob.glob(os.path.join(HERE, "seeded", "S-*"))):
        mpth = os.path.join(d, "meta.json")
        if not os.path.exists(mpth):
            continue
        with open(mpth) as f:
            m = json.load(f)
        conf = m.get("confirmed", {})
        checks = ", ".join("{}: {}".format(p, "**caught**" if c["verdict"] == "CAUGHT" else c["verdict"].lower()) for p, c in m.get("checks", {}).items())
        hist = m.get("history", "")
        out.append("| {} | {} | {} | {} | {} / {} / {} | {}{} |".format(
            os.path.basename(d), m.get("property"), str(m.get("summary", "")).replace("|", "/")[:260], str(m.get("needs", "")).replace("|", "/")[:200],
            "yes" if conf.get("demo_fails_with_change") else "NO", "yes" if conf.get("demo_passes_without_change") else "NO",
            conf.get("suite_with_change", "?").split(" in ")[0], checks, (" - " + hist) if hist else ""))
    text = "\n".join(out) + "\n"
    with open(os.path.join(HERE, "seeded", "README.md"), "w") as f:
        f.write("# Seeded changes and mutation audit: which checks catch which changes\n\n" + text)
    print(text)


if __name__ == "__main__":
    main()
